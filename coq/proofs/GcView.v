(* C03: a GC pass (no hint merge) never changes what any key reads.  Loop invariant over the per-record
   steps: in-place rewriting, destination switches, stale tails, source clearing. *)
From Coq Require Import NArith ZArith List Bool Lia ZifyN ZifyNat ZifyBool Sorting.Sorted FMapPositive.
From GB Require Import Consts Words Hash HintFile HTree Compress Bucket BucketOpen Gc CheckL2 RefMap
     BucketBasics Refine GcTouch LogMono CollideProofs Upd Restart1 Restart2 Restart3 GcSplit GcSplitProofs.
Import ListNotations.
Open Scope N_scope.

Definition rend (e : N * drec) : N := fst e + dsize (snd e).

(* ---- one chunk under GC: no write buffer, unique offsets ---- *)
Definition gchunk (k : chunk) : Prop :=
  k_wbuf k = [] /\ (k_exists k = false -> k_disk k = []) /\ NoDup (map fst (k_disk k)) /\ Forall (fun e => rend e <= k_size k) (k_disk k).

Lemma find_off_in_nodup l o r : NoDup (map fst l) -> In (o, r) l -> find_off l o = Some r.
Proof.
  induction l as [|[o' r'] l IH]; intros Hnd Hin; [destruct Hin|]. cbn [find_off]. cbn [map] in Hnd. inversion Hnd as [|? ? Hni Hnd']; subst.
  destruct Hin as [E|Hin]; [injection E as -> ->; now rewrite N.eqb_refl|].
  destruct (N.eqb_spec o' o) as [->|Hne]; [exfalso; apply Hni; apply in_map_iff; exists (o, r); auto|]. now apply IH.
Qed.

Lemma find_off_some_in l o r : find_off l o = Some r -> In (o, r) l.
Proof.
  induction l as [|[o' r'] l IH]; cbn [find_off]; [discriminate|]. destruct (N.eqb_spec o' o) as [->|Hne].
  - intros H; injection H as <-. now left.
  - intros H. right. auto.
Qed.

Lemma gchunk_read k off : gchunk k -> rd_rec (chunk_read k off) = find_off (k_disk k) off /\ (rd_ok (chunk_read k off) = false -> chunk_read k off = RFail).
Proof.
  intros (Hw & He & _). unfold chunk_read. rewrite Hw. destruct (k_exists k) eqn:E.
  - destruct (find_off (k_disk k) off); cbn; split; auto; discriminate.
  - rewrite (He eq_refl). cbn. auto.
Qed.

(* AppendRecordGC on the chunk itself *)
Definition append_gc_chunk (k : chunk) (r : drec) : chunk :=
  let off := k_whead k in let sz := dsize r in
  mkChunk true (filter (fun e => (fst e + dsize (snd e) <=? off) || (off + sz <=? fst e)) (k_disk k) ++ [(off, r)])
          (N.max (k_fsize k) (off + sz)) (k_wbuf k) (off + sz) (if k_size k <=? off + sz then off + sz else k_size k) (k_rewriting k).

Lemma append_gc_eq b dst r : append_gc b dst r = (set_chunk b dst (append_gc_chunk (chunk_at b dst) r), k_whead (chunk_at b dst)).
Proof. reflexivity. Qed.

Definition nostraddle (k : chunk) : Prop := Forall (fun e => rend e <= k_whead k \/ k_whead k <= fst e) (k_disk k).

Lemma append_gc_chunk_facts k r : gchunk k -> nostraddle k ->
  let k' := append_gc_chunk k r in
  gchunk k' /\ nostraddle k' /\ k_whead k' = k_whead k + dsize r /\
  find_off (k_disk k') (k_whead k) = Some r /\
  (forall o r0, In (o, r0) (k_disk k) -> (o + dsize r0 <= k_whead k \/ k_whead k + dsize r <= o) -> In (o, r0) (k_disk k')) /\
  (forall o r0, In (o, r0) (k_disk k') -> (o, r0) = (k_whead k, r) \/ In (o, r0) (k_disk k)) /\
  k_rewriting k' = k_rewriting k /\ k_size k <= k_size k'.
Proof.
  intros (Hw & He & Hnd & Hsz) Hns. cbv zeta. unfold append_gc_chunk.
  set (off := k_whead k). set (sz := dsize r). pose proof (dsize_pos r) as Hp. fold sz in Hp.
  set (f := fun e : N * drec => (fst e + dsize (snd e) <=? off) || (off + sz <=? fst e)).
  assert (Hkept : forall e, In e (filter f (k_disk k)) -> In e (k_disk k) /\ (rend e <= off \/ off + sz <= fst e)).
  { intros e H. apply filter_In in H as [H1 H2]. split; [exact H1|]. unfold f, rend in *. lia. }
  assert (Hnot : ~ In off (map fst (filter f (k_disk k)))).
  { intros H. apply in_map_iff in H as (e & He1 & He2). destruct (Hkept e He2) as [_ [H|H]]; unfold rend in *; pose proof (dsize_pos (snd e)); lia. }
  split; [|split; [|split; [reflexivity|split; [|split; [|split; [|split; [reflexivity|]]]]]]].
  - unfold gchunk. cbn [k_wbuf k_exists k_disk k_size]. split; [exact Hw|]. split; [discriminate|]. split.
    + rewrite map_app. cbn [map fst]. apply nodup_snoc; [|exact Hnot].
      clear -Hnd. induction (k_disk k) as [|x l IH]; cbn [filter map]; [constructor|]. cbn [map] in Hnd. inversion Hnd as [|? ? Hni Hnd']; subst.
      destruct (f x); cbn [map]; [|auto]. constructor; [|auto]. intros H. apply Hni. apply in_map_iff in H as (y & Hy & Hin). apply filter_In in Hin as [Hin _]. apply in_map_iff. eauto.
    + apply Forall_app. split.
      * apply Forall_forall. intros e H. destruct (Hkept e H) as [H1 _]. rewrite Forall_forall in Hsz. specialize (Hsz e H1).
        destruct (k_size k <=? off + sz) eqn:E; lia.
      * constructor; [|constructor]. unfold rend. cbn [fst snd]. fold sz. destruct (k_size k <=? off + sz) eqn:E; lia.
  - unfold nostraddle. cbn [k_disk k_whead]. apply Forall_app. split.
    + apply Forall_forall. intros e H. destruct (Hkept e H) as [_ [H1|H1]]; [left; lia|right; lia].
    + constructor; [|constructor]. left. unfold rend. cbn [fst snd]. fold sz. lia.
  - cbn [k_disk]. rewrite find_off_app. rewrite (find_off_none (filter f (k_disk k)) off).
    + cbn [find_off]. now rewrite N.eqb_refl.
    + intros o r0 Hin Heq. subst o. apply Hnot. apply in_map_iff. exists (off, r0). auto.
  - intros o r0 Hin Hc. cbn [k_disk]. apply in_or_app. left. apply filter_In. split; [exact Hin|]. unfold f. cbn [fst snd]. fold off sz in Hc. lia.
  - intros o r0 Hin. cbn [k_disk] in Hin. apply in_app_or in Hin as [Hin|[E|[]]]; [right; apply (Hkept _ Hin)|left; now symmetry].
  - cbn [k_size]. destruct (k_size k <=? off + sz) eqn:E; lia.
Qed.

Definition begin_gc_chunk (k : chunk) (inplace : bool) : chunk :=
  if inplace then mkChunk true (k_disk k) (k_fsize k) (k_wbuf k) 0 (k_size k) true
  else mkChunk true (k_disk k) (k_fsize k) (k_wbuf k) (k_size k) (k_size k) (k_rewriting k).

Lemma begin_gc_eq b dst src : begin_gc_writing b dst src = set_chunk b dst (begin_gc_chunk (chunk_at b dst) (Nat.eqb dst src)).
Proof. unfold begin_gc_writing, begin_gc_chunk. destruct (Nat.eqb dst src); reflexivity. Qed.

Lemma begin_gc_chunk_facts k inplace : gchunk k ->
  let k' := begin_gc_chunk k inplace in
  gchunk k' /\ nostraddle k' /\ k_disk k' = k_disk k /\ k_size k' = k_size k /\
  k_whead k' = (if inplace then 0 else k_size k).
Proof.
  intros (Hw & He & Hnd & Hsz). cbv zeta. unfold begin_gc_chunk, gchunk, nostraddle.
  destruct inplace; cbn [k_wbuf k_exists k_disk k_size k_whead].
  - repeat split; try assumption; try discriminate. apply Forall_forall. intros e _. right. lia.
  - repeat split; try assumption; try discriminate. eapply Forall_impl; [|exact Hsz]. cbv beta. intros e H. now left.
Qed.

Definition end_gc_chunk (k : chunk) : chunk :=
  if k_rewriting k && (k_whead k <? k_size k) then
    mkChunk (negb (k_whead k =? 0)) (filter (fun e => fst e <? k_whead k) (k_disk k)) (k_whead k) (k_wbuf k) (k_whead k) (k_whead k) false
  else mkChunk (k_exists k) (k_disk k) (k_fsize k) (k_wbuf k) (k_whead k) (k_size k) false.

Lemma end_gc_eq b dst : end_gc_writing b dst = set_chunk b dst (end_gc_chunk (chunk_at b dst)).
Proof. unfold end_gc_writing, end_gc_chunk. destruct (_ && _); reflexivity. Qed.

(* ending GC writing keeps every record that lies below the writing head, and afterwards nothing lies above it *)
Lemma end_gc_chunk_facts k : gchunk k -> nostraddle k -> k_whead k <= k_size k ->
  let k' := end_gc_chunk k in
  gchunk k' /\ k_rewriting k' = false /\
  (forall o r0, In (o, r0) (k_disk k) -> o + dsize r0 <= k_whead k -> In (o, r0) (k_disk k')) /\
  (forall e, In e (k_disk k') -> In e (k_disk k)) /\
  ((k_rewriting k = true \/ k_whead k = k_size k) -> Forall (fun e => rend e <= k_whead k') (k_disk k') /\ k_size k' = k_whead k') /\
  k_whead k' = k_whead k.
Proof.
  intros (Hw & He & Hnd & Hsz) Hns Hle. cbv zeta. unfold end_gc_chunk.
  destruct (k_rewriting k && (k_whead k <? k_size k)) eqn:E.
  - unfold gchunk. cbn [k_wbuf k_exists k_disk k_size k_whead k_rewriting].
    assert (Hkeep : forall e, In e (filter (fun e0 => fst e0 <? k_whead k) (k_disk k)) -> In e (k_disk k) /\ rend e <= k_whead k).
    { intros e H. apply filter_In in H as [H1 H2]. split; [exact H1|]. unfold nostraddle in Hns. rewrite Forall_forall in Hns.
      destruct (Hns e H1); [assumption|lia]. }
    split; [|split; [reflexivity|split; [|split; [|split; [|reflexivity]]]]].
    + split; [exact Hw|]. split; [|split].
      * intros Hz. apply negb_false_iff, N.eqb_eq in Hz. apply filter_nil. intros x Hx. lia.
      * clear -Hnd. induction (k_disk k) as [|x l IH]; cbn [filter map]; [constructor|]. cbn [map] in Hnd. inversion Hnd as [|? ? Hni Hnd']; subst.
        destruct (fst x <? k_whead k); cbn [map]; [|auto]. constructor; [|auto]. intros H. apply Hni. apply in_map_iff in H as (y & Hy & Hin). apply filter_In in Hin as [Hin _]. apply in_map_iff. eauto.
      * apply Forall_forall. intros e H. apply (Hkeep e H).
    + intros o r0 Hin Hend. apply filter_In. split; [exact Hin|]. cbn [fst]. pose proof (dsize_pos r0). lia.
    + intros e H. apply (Hkeep e H).
    + intros _. split; [|reflexivity]. apply Forall_forall. intros e H. apply (Hkeep e H).
  - unfold gchunk. cbn [k_wbuf k_exists k_disk k_size k_whead k_rewriting].
    split; [repeat split; assumption|]. split; [reflexivity|]. split; [auto|]. split; [auto|]. split; [|reflexivity].
    intros Hcase. assert (Heq : k_whead k = k_size k).
    { destruct Hcase as [Hr|Hq]; [|exact Hq]. rewrite Hr in E. cbn [andb] in E. lia. }
    split; [|now symmetry]. rewrite Heq. exact Hsz.
Qed.

Section GV.
Variable cf : cfg.
Variable hf : bytes -> N.
Variable K : list bytes.
Hypothesis hf_inj : forall k1 k2, In k1 K -> In k2 K -> hf k1 = hf k2 -> k1 = k2.
Hypothesis cap_pos : 0 < c_splitcap cf.

(* ---- all in-memory hint items belong to keys of K: GC's collision probe never fires ---- *)
Definition IOK (b : bucket) : Prop := forall c it, In it (hint_items b c) -> item_ok hf K it.

Lemma buf_get_coll_false l h key : Forall (item_ok hf K) l -> In key K -> h = hf key -> snd (buf_get_coll l h key) = false.
Proof.
  intros Hok Hk ->. unfold buf_get_coll. destruct (find (fun x => hi_hash x =? hf key) (rev l)) as [x|] eqn:E; [|reflexivity].
  apply find_some in E as [Hin Hh]. apply in_rev in Hin. rewrite Forall_forall in Hok. destruct (Hok x Hin) as [Hx1 Hx2].
  apply N.eqb_eq in Hh. assert (hi_key x = key) by (apply hf_inj; [exact Hx1|exact Hk|congruence]).
  subst key. now rewrite bytes_eqb_refl.
Qed.

Lemma splits_get_coll_false sps h key : (forall sp, In sp sps -> Forall (item_ok hf K) (sp_items sp)) -> In key K -> h = hf key ->
  forall c0, c0 = false -> snd (fst (splits_get_coll sps h key c0)) = false.
Proof.
  intros Hok Hk Hh. induction sps as [|sp sps IH]; intros c0 Hc0; cbn [splits_get_coll]; [exact Hc0|].
  destruct (sp_file sp); [exact Hc0|].
  pose proof (buf_get_coll_false (sp_items sp) h key (Hok sp (or_introl eq_refl)) Hk Hh) as Hb.
  destruct (buf_get_coll (sp_items sp) h key) as [[it|] c]; cbn [snd] in Hb; [exact Hb|].
  apply IH; [intros sp' Hin; apply Hok; now right|exact Hb].
Qed.

Lemma hints_get_coll_false b h key : IOK b -> In key K -> h = hf key -> forall n, snd (hints_get_coll b n h key) = false.
Proof.
  intros Hiok Hk Hh.
  assert (Hsp : forall n c0, c0 = false -> snd (fst (splits_get_coll (rev (hc_splits (hchunk_at b n))) h key c0)) = false).
  { intros n. apply splits_get_coll_false; [|exact Hk|exact Hh].
    intros sp Hin. apply in_rev in Hin. apply Forall_forall. intros x Hx. apply (Hiok n). unfold hint_items, items_of. apply in_concat.
    exists (sp_items sp). split; [apply in_map; exact Hin|exact Hx]. }
  induction n as [|n IH]; cbn [hints_get_coll].
  - specialize (Hsp 0%nat false eq_refl). destruct (splits_get_coll _ h key false) as [[it c] stop]. cbn [fst snd] in Hsp. subst c.
    cbn [orb]. destruct stop; reflexivity.
  - specialize (Hsp (S n) false eq_refl). destruct (splits_get_coll _ h key false) as [[it c] stop]. cbn [fst snd] in Hsp. subst c.
    cbn [orb]. destruct stop; [reflexivity|exact IH].
Qed.

Lemma no_collision b h key : IOK b -> b_ctab b = [] -> In key K -> h = hf key -> snd (get_collision_gc b h key) = false.
Proof. intros Hi Hc Hk Hh. unfold get_collision_gc. rewrite Hc. cbn [ct_has_hash existsb]. now apply hints_get_coll_false. Qed.

Lemma iok_set_item b it c rs : IOK b -> item_ok hf K it -> IOK (hints_set_item cf b it c rs).
Proof. intros Hi Hit c' y Hy. apply hints_set_item_items in Hy as [[_ ->]|Hy]; [exact Hit|now apply (Hi c')]. Qed.
Lemma iok_trydump b c d : IOK b -> IOK (trydump b c d).
Proof. intros Hi c' y Hy. apply trydump_items in Hy. now apply (Hi c'). Qed.
Lemma iok_hints_same b b' : b_hints b' = b_hints b -> IOK b -> IOK b'.
Proof. intros H Hi c y Hy. unfold hint_items, hchunk_at in Hy. rewrite H in Hy. now apply (Hi c). Qed.
Lemma iok_clear b c : IOK b -> IOK (clear_hint_chunk b c).
Proof.
  intros Hi c' y Hy. unfold clear_hint_chunk, hint_items in Hy. rewrite (hchunk_at_updd b _ c c' _ _ _ eq_refl) in Hy.
  destruct (Nat.eqb c c'); [destruct Hy|now apply (Hi c')].
Qed.
End GV.

(* what the index holds for key k, with the whole record it points at (GC moves records, it never alters them) *)
Definition absr (hf : bytes -> N) (b : bucket) (k : bytes) : option (drec * Z * N) :=
  match tree_get_slot b (hf k) with
  | Some s => match log_find b (s_pos s) with Some r => Some (r, s_ver s, s_vh s) | None => None end
  | None => None
  end.
Lemma abs_of_absr hf b b' k : absr hf b k = absr hf b' k -> abs hf b k = abs hf b' k.
Proof.
  unfold absr, abs. destruct (tree_get_slot b (hf k)) as [s|]; destruct (tree_get_slot b' (hf k)) as [s'|];
    try destruct (log_find b (s_pos s)); try destruct (log_find b' (s_pos s')); intros H; try discriminate; try reflexivity.
  injection H as -> -> _. reflexivity.
Qed.
Lemma absr_core hf b b' k : core b = core b' -> absr hf b k = absr hf b' k.
Proof.
  intros H. unfold absr. rewrite (core_tree b b' _ H). destruct (tree_get_slot b' (hf k)); [|reflexivity].
  now rewrite (log_find_core b b' _ H).
Qed.

Section GV2.
Variable cf : cfg.
Variable hf : bytes -> N.
Variable K : list bytes.
Hypothesis hf_inj : forall k1 k2, In k1 K -> In k2 K -> hf k1 = hf k2 -> k1 = k2.
Hypothesis cap_pos : 0 < c_splitcap cf.
Variable b0 : bucket.          (* the bucket when the pass starts *)
Variable begin_ : nat.
Let H0 := b_head b0.

(* where a referenced record may live so that the next GC steps cannot disturb it *)
Definition Prot (D : nat) (W : N) (src : nat) (R : list (N * drec)) (p : pos) (r : drec) : Prop :=
  (p_chunk p <> D /\ p_chunk p <> src) \/
  (p_chunk p = D /\ p_off p + dsize r <= W) \/
  (p_chunk p = src /\ In (p_off p, r) R).

Definition SlotP (st : bucket) (D : nat) (W : N) (src : nat) (R : list (N * drec)) (h : N) (s : slot) : Prop :=
  exists r, log_find st (s_pos s) = Some r /\ hf (d_key r) = h /\ In (d_key r) K /\
            ((0 < s_ver s)%Z -> s_vh s = vhash (d_val r)) /\ ((s_ver s < 0)%Z -> d_val r = [] /\ d_flag r = 0) /\ s_ver s <> 0%Z /\
            Prot D W src R (s_pos s) r.

Definition GI (st : gcst) (src : nat) (R : list (N * drec)) : Prop :=
  let b := gc_b st in let D := gc_dst st in let W := k_whead (chunk_at b D) in
  b_head b = H0 /\ b_ctab b = [] /\
  (forall c, (c = H0 \/ (src < c)%nat) -> chunk_at b c = chunk_at b0 c) /\
  (forall c, (c < H0)%nat -> gchunk (chunk_at b c)) /\
  (D <= src)%nat /\ (src < H0)%nat /\ nostraddle (chunk_at b D) /\ W <= k_size (chunk_at b D) /\
  (forall c, (D < c < src)%nat -> k_disk (chunk_at b c) = [] /\ k_size (chunk_at b c) = 0) /\
  (forall e, In e R -> In e (k_disk (chunk_at b src))) /\ (D = src -> forall e, In e R -> W <= fst e) /\ spaced R /\
  (forall c e, (c < H0)%nat -> In e (k_disk (chunk_at b c)) -> rend e <= c_filemax cf /\ In (d_key (snd e)) K) /\
  IOK hf K b /\
  (forall h s, tree_get_slot b h = Some s -> SlotP b D W src R h s) /\
  (forall k, In k K -> absr hf b k = absr hf b0 k).

Lemma log_find_gchunk b p : gchunk (chunk_at b (p_chunk p)) -> log_find b p = find_off (k_disk (chunk_at b (p_chunk p))) (p_off p).
Proof. intros (Hw & _). unfold log_find, all_recs. now rewrite Hw, app_nil_r. Qed.

Lemma log_find_set_other b c k p : p_chunk p <> c -> log_find (set_chunk b c k) p = log_find b p.
Proof. intros H. unfold log_find. rewrite chunk_at_set_other by congruence. reflexivity. Qed.

(* a record is dropped: nothing changes but the statistics *)
Lemma gi_drop st gs' src off r R' :
  GI st src ((off, r) :: R') ->
  (forall h s, tree_get_slot (gc_b st) h = Some s -> s_pos s <> mkPos src off) ->
  GI (mkGC (gc_b st) (gc_dst st) gs') src R'.
Proof.
  intros (G1 & G2 & G3 & G4 & G5 & G6 & G7 & G8 & G9 & G10 & G11 & G12 & G13 & G14 & G15 & G16) Hnone.
  unfold GI. cbn [gc_b gc_dst]. cbv zeta in *.
  split; [exact G1|]. split; [exact G2|]. split; [exact G3|]. split; [exact G4|]. split; [exact G5|]. split; [exact G6|].
  split; [exact G7|]. split; [exact G8|]. split; [exact G9|]. split; [intros e He; apply G10; now right|].
  split; [intros E e He; apply (G11 E); now right|]. split; [unfold spaced in *; now inversion G12|].
  split; [exact G13|]. split; [exact G14|]. split; [|exact G16].
  intros h s Hs. destruct (G15 h s Hs) as (r0 & L & A1 & A2 & A3 & A4 & A5 & P). exists r0.
  split; [exact L|]. split; [exact A1|]. split; [exact A2|]. split; [exact A3|]. split; [exact A4|]. split; [exact A5|].
  destruct P as [P|[P|[Pc Pin]]]; [now left|right; now left|]. right. right. split; [exact Pc|].
  destruct Pin as [E|Hin]; [|exact Hin]. exfalso. apply (Hnone h s Hs). injection E as E1 E2. destruct (s_pos s). cbn in *. congruence.
Qed.

Lemma gchunk_set b c k c' : (c' = c -> gchunk k) -> (c' <> c -> gchunk (chunk_at b c')) -> gchunk (chunk_at (set_chunk b c k) c').
Proof.
  intros H1 H2. destruct (Nat.eq_dec c c') as [<-|Hne]; [rewrite chunk_at_set_same; now apply H1|].
  rewrite chunk_at_set_other by exact Hne. apply H2. congruence.
Qed.

(* the destination is full: end writing there, move on to the next chunk *)
Lemma gi_switch st src off r R' :
  GI st src ((off, r) :: R') ->
  c_filemax cf < dsize r + k_whead (chunk_at (gc_b st) (gc_dst st)) ->
  let D := gc_dst st in
  GI (mkGC (begin_gc_writing (trydump (end_gc_writing (gc_b st) D) D true) (S D) src) (S D) (gc_stat st)) src ((off, r) :: R') /\
  k_whead (chunk_at (begin_gc_writing (trydump (end_gc_writing (gc_b st) D) D true) (S D) src) (S D)) = 0 /\
  (forall h, tree_get_slot (begin_gc_writing (trydump (end_gc_writing (gc_b st) D) D true) (S D) src) h = tree_get_slot (gc_b st) h).
Proof.
  intros (G1 & G2 & G3 & G4 & G5 & G6 & G7 & G8 & G9 & G10 & G11 & G12 & G13 & G14 & G15 & G16) Hfull. cbv zeta in *.
  set (b := gc_b st) in *. set (D := gc_dst st) in *. set (kd := chunk_at b D) in *. set (W := k_whead kd) in *.
  assert (HDlt : (D < H0)%nat) by lia.
  (* an in-place destination can never be full *)
  assert (HDsrc : D <> src).
  { intros E. pose proof (G11 E (off, r) (or_introl eq_refl)) as Hw. cbn [fst] in Hw.
    destruct (G13 src (off, r) G6 (G10 _ (or_introl eq_refl))) as [Hfm _]. unfold rend in Hfm. cbn [fst snd] in Hfm. fold W in Hfull. lia. }
  assert (HDs : (D < src)%nat) by lia.
  destruct (end_gc_chunk_facts kd (G4 D HDlt) G7 G8) as (E1 & E2 & E3 & E4 & _ & E6). cbv zeta in E1, E2, E3, E4, E6.
  rewrite end_gc_eq. fold kd.
  set (b1 := set_chunk b D (end_gc_chunk kd)).
  pose proof (trydump_core b1 D true) as Hcore. set (b2 := trydump b1 D true) in *.
  assert (Hc2 : forall c, chunk_at b2 c = chunk_at b1 c) by (intros c; apply (core_chunk_at b2 b1 c Hcore)).
  rewrite begin_gc_eq. set (kn := chunk_at b2 (S D)).
  set (b3 := set_chunk b2 (S D) (begin_gc_chunk kn (Nat.eqb (S D) src))).
  (* the next chunk: either the source itself or an emptied chunk *)
  assert (Hkn : kn = chunk_at b (S D)).
  { unfold kn. rewrite Hc2. unfold b1. apply chunk_at_set_other. lia. }
  assert (HSD : (S D < H0)%nat) by lia.
  destruct (begin_gc_chunk_facts kn (Nat.eqb (S D) src)) as (B1 & B2 & B3 & B4 & B5); [rewrite Hkn; apply G4; lia|].
  cbv zeta in B1, B2, B3, B4, B5.
  assert (Hch3 : forall c, chunk_at b3 c = if Nat.eqb c (S D) then begin_gc_chunk kn (Nat.eqb (S D) src)
                                        else if Nat.eqb c D then end_gc_chunk kd else chunk_at b c).
  { intros c. unfold b3. destruct (Nat.eqb_spec c (S D)) as [->|H1]; [apply chunk_at_set_same|].
    rewrite chunk_at_set_other by congruence. rewrite Hc2. unfold b1.
    destruct (Nat.eqb_spec c D) as [->|H2]; [apply chunk_at_set_same|]. apply chunk_at_set_other. congruence. }
  assert (Hdisk3 : forall c e, In e (k_disk (chunk_at b3 c)) -> In e (k_disk (chunk_at b c))).
  { intros c e. rewrite Hch3. destruct (Nat.eqb_spec c (S D)) as [->|H1]; [rewrite B3, Hkn; auto|].
    destruct (Nat.eqb_spec c D) as [->|H2]; [apply E4|auto]. }
  (* every referenced record survives *)
  assert (Hlog3 : forall p r0, log_find b p = Some r0 -> (p_chunk p = D -> p_off p + dsize r0 <= W) -> log_find b3 p = Some r0).
  { intros p r0 Hl Hp. unfold log_find in *. rewrite Hch3.
    destruct (Nat.eqb_spec (p_chunk p) (S D)) as [E|H1].
    - unfold all_recs in *. rewrite B3, (proj1 B1), Hkn. rewrite E in Hl. rewrite (proj1 (G4 (S D) HSD)) in Hl. exact Hl.
    - destruct (Nat.eqb_spec (p_chunk p) D) as [E|H2]; [|exact Hl].
      unfold all_recs in *. rewrite (proj1 E1), app_nil_r. rewrite E in Hl. rewrite (proj1 (G4 D HDlt)), app_nil_r in Hl.
      destruct E1 as (_ & _ & End & _). apply find_off_in_nodup; [exact End|]. apply E3; [now apply find_off_some_in|auto]. }
  unfold GI. cbn [gc_b gc_dst gc_stat]. fold b3.
  assert (HW3 : k_whead (chunk_at b3 (S D)) = if Nat.eqb (S D) src then 0 else k_size kn).
  { rewrite Hch3, Nat.eqb_refl. exact B5. }
  assert (Hempty : S D <> src -> k_disk kn = [] /\ k_size kn = 0) by (intros Hne; rewrite Hkn; apply G9; lia).
  split; [|split; [rewrite HW3; destruct (Nat.eqb_spec (S D) src) as [_|Hne]; [reflexivity|apply (Hempty Hne)]|
                   intros h; change (tree_get_slot b3 h) with (tree_get_slot b2 h); rewrite (core_tree b2 b1 h Hcore); reflexivity]].
  split; [change (b_head b3) with (b_head b2); rewrite (core_head b2 b1 Hcore); exact G1|].
  split; [change (b_ctab b3) with (b_ctab b2); rewrite (core_ctab b2 b1 Hcore); exact G2|].
  split; [|split; [|split; [lia|split; [exact G6|split; [|split; [|split; [|split; [|split; [|split; [exact G12|split; [|split; [|split]]]]]]]]]]]].
  - intros c Hc. rewrite Hch3. replace (Nat.eqb c (S D)) with false by (symmetry; apply Nat.eqb_neq; lia).
    replace (Nat.eqb c D) with false by (symmetry; apply Nat.eqb_neq; lia). now apply G3.
  - intros c Hc. rewrite Hch3. destruct (Nat.eqb c (S D)); [exact B1|]. destruct (Nat.eqb c D); [exact E1|now apply G4].
  - rewrite Hch3, Nat.eqb_refl. exact B2.
  - rewrite HW3, Hch3, Nat.eqb_refl, B4. destruct (Nat.eqb (S D) src); lia.
  - intros c Hc. rewrite Hch3. replace (Nat.eqb c (S D)) with false by (symmetry; apply Nat.eqb_neq; lia).
    replace (Nat.eqb c D) with false by (symmetry; apply Nat.eqb_neq; lia). apply G9. lia.
  - intros e He. rewrite Hch3. destruct (Nat.eqb_spec src (S D)) as [E|Hne].
    + rewrite B3, Hkn, <- E. now apply G10.
    + replace (Nat.eqb src D) with false by (symmetry; apply Nat.eqb_neq; lia). now apply G10.
  - intros E e He. rewrite HW3, E, Nat.eqb_refl. lia.
  - intros c e Hc He. apply (G13 c e Hc). now apply Hdisk3.
  - apply (iok_hints_same hf K b2); [reflexivity|]. apply iok_trydump. apply (iok_hints_same hf K b); [reflexivity|exact G14].
  - intros h s Hs.
    assert (Hs0 : tree_get_slot b h = Some s).
    { change (tree_get_slot b3 h) with (tree_get_slot b2 h) in Hs. rewrite (core_tree b2 b1 h Hcore) in Hs. exact Hs. }
    destruct (G15 h s Hs0) as (r0 & L & A1 & A2 & A3 & A4 & A5 & P). exists r0.
    assert (HPd : p_chunk (s_pos s) = D -> p_off (s_pos s) + dsize r0 <= W).
    { intros E. destruct P as [[P _]|[[_ P]|[P _]]]; [congruence|exact P|congruence]. }
    split; [now apply Hlog3|]. split; [exact A1|]. split; [exact A2|]. split; [exact A3|]. split; [exact A4|]. split; [exact A5|].
    (* the slot cannot point into the new destination unless that is the source *)
    destruct P as [[P1 P2]|[[P1 P2]|[P1 P2]]].
    + left. split; [|exact P2]. intros E. destruct (Nat.eq_dec (S D) src) as [Es|Hne]; [congruence|].
      destruct (Hempty Hne) as [Hd _]. unfold log_find in L. rewrite E in L. unfold all_recs in L. rewrite <- Hkn, Hd in L.
      rewrite Hkn, (proj1 (G4 (S D) HSD)) in L. discriminate.
    + left. split; lia.
    + right. right. split; assumption.
  - intros k Hk. rewrite <- (G16 k Hk). unfold absr.
    change (tree_get_slot b3 (hf k)) with (tree_get_slot b2 (hf k)). rewrite (core_tree b2 b1 (hf k) Hcore).
    change (tree_get_slot b1 (hf k)) with (tree_get_slot b (hf k)).
    destruct (tree_get_slot b (hf k)) as [s|] eqn:Es; [|reflexivity].
    destruct (G15 _ s Es) as (r0 & L & _ & _ & _ & _ & _ & P). rewrite L.
    rewrite (Hlog3 _ r0 L); [reflexivity|]. intros E. destruct P as [[P _]|[[_ P]|[P _]]]; [congruence|exact P|congruence].
Qed.

(* the record is copied to the destination, the slot (if the tree knows the key) repointed, the hint written *)
Lemma gi_append st src off r R' gs' vh :
  GI st src ((off, r) :: R') ->
  let b := gc_b st in let D := gc_dst st in let W := k_whead (chunk_at b D) in let h := hf (d_key r) in
  dsize r + W <= c_filemax cf ->
  (forall s, tree_get_slot b h = Some s -> s_pos s = mkPos src off) ->
  let b2 := fst (append_gc b D r) in
  let b3 := match tree_get_slot b h with Some s => tree_put b2 h (mkSlot (mkPos D W) (s_ver s) (s_vh s)) | None => b2 end in
  GI (mkGC (hints_set cf b3 h (d_key r) (d_ver r) vh (mkPos D W) (dsize r) true) D gs') src R'.
Proof.
  intros (G1 & G2 & G3 & G4 & G5 & G6 & G7 & G8 & G9 & G10 & G11 & G12 & G13 & G14 & G15 & G16). cbv zeta in *.
  set (b := gc_b st) in *. set (D := gc_dst st) in *. set (kd := chunk_at b D) in *. set (W := k_whead kd) in *. set (h := hf (d_key r)).
  intros Hfit Hslot. pose proof (dsize_pos r) as Hsz.
  assert (HDlt : (D < H0)%nat) by lia.
  assert (Hin_e : In (off, r) (k_disk (chunk_at b src))) by (apply G10; now left).
  destruct (G13 src (off, r) G6 Hin_e) as [Hfm_e Hk_e]. cbn [snd] in Hk_e.
  assert (Hlog_e : log_find b (mkPos src off) = Some r).
  { rewrite log_find_gchunk by (cbn [p_chunk]; now apply G4). cbn [p_chunk p_off]. apply find_off_in_nodup; [apply (G4 src G6)|exact Hin_e]. }
  (* only the slot of this key can point at this record *)
  assert (HU : forall h' s', tree_get_slot b h' = Some s' -> s_pos s' = mkPos src off -> h' = h).
  { intros h' s' Hs' Hp. destruct (G15 h' s' Hs') as (r0 & L & A1 & _). rewrite Hp, Hlog_e in L. injection L as <-. now symmetry. }
  destruct (append_gc_chunk_facts kd r (G4 D HDlt) G7) as (F1 & F2 & F3 & F4 & F5 & F6 & F7 & F8). cbv zeta in F1, F2, F3, F4, F5, F6, F7, F8.
  rewrite append_gc_eq. cbn [fst]. fold kd.
  set (b2 := set_chunk b D (append_gc_chunk kd r)).
  (* rest of the source stays where it is *)
  assert (Hrest : forall e, In e R' -> (D = src -> W + dsize r <= fst e)).
  { intros e He E. pose proof (G11 E (off, r) (or_introl eq_refl)) as Hw. cbn [fst] in Hw.
    unfold spaced in G12. inversion G12 as [|? ? _ Hx]; subst. rewrite Forall_forall in Hx. specialize (Hx e He). cbn [fst snd] in Hx. lia. }
  assert (Hch2 : forall c, chunk_at b2 c = if Nat.eqb c D then append_gc_chunk kd r else chunk_at b c).
  { intros c. unfold b2. destruct (Nat.eqb_spec c D) as [->|Hne]; [apply chunk_at_set_same|]. apply chunk_at_set_other. congruence. }
  (* records that survive the append *)
  assert (Hlog2 : forall p r0, log_find b p = Some r0 ->
            (p_chunk p = D -> p_off p + dsize r0 <= W \/ W + dsize r <= p_off p) -> log_find b2 p = Some r0).
  { intros p r0 Hl Hp. unfold log_find in *. rewrite Hch2. destruct (Nat.eqb_spec (p_chunk p) D) as [E|Hne]; [|exact Hl].
    unfold all_recs in *. rewrite (proj1 F1), app_nil_r. rewrite E in Hl. rewrite (proj1 (G4 D HDlt)), app_nil_r in Hl.
    destruct F1 as (_ & _ & Fnd & _). apply find_off_in_nodup; [exact Fnd|]. apply F5; [now apply find_off_some_in|auto]. }
  assert (Hlog_new : log_find b2 (mkPos D W) = Some r).
  { unfold log_find. cbn [p_chunk p_off]. rewrite Hch2, Nat.eqb_refl. unfold all_recs. rewrite (proj1 F1), app_nil_r. exact F4. }
  (* where a protected position ends up *)
  assert (Hprot : forall p r0, log_find b p = Some r0 -> Prot D W src ((off, r) :: R') p r0 -> p <> mkPos src off ->
            log_find b2 p = Some r0 /\ Prot D (W + dsize r) src R' p r0).
  { intros p r0 Hl P Hne. destruct P as [[P1 P2]|[[P1 P2]|[P1 P2]]].
    - split; [apply Hlog2; [exact Hl|congruence]|now left].
    - split; [apply Hlog2; [exact Hl|auto]|right; left; split; [exact P1|lia]].
    - destruct P2 as [E|Hin]; [exfalso; apply Hne; injection E as E1 E2; destruct p; cbn in *; congruence|].
      split; [|right; right; now split]. apply Hlog2; [exact Hl|]. intros E. right. apply (Hrest _ Hin). congruence. }
  set (b3 := match tree_get_slot b h with Some s => tree_put b2 h (mkSlot (mkPos D W) (s_ver s) (s_vh s)) | None => b2 end).
  assert (Hch3 : forall c, chunk_at b3 c = chunk_at b2 c) by (intros c; unfold b3; destruct (tree_get_slot b h); reflexivity).
  assert (Hct3 : b_ctab b3 = []) by (unfold b3; destruct (tree_get_slot b h); exact G2).
  unfold hints_set. replace (ct_has_hash (b_ctab b3) h) with false by (now rewrite Hct3).
  set (it := mkHI h 0 (p_off (mkPos D W)) (d_ver r) vh (d_key r)).
  pose proof (hints_set_item_core cf b3 it (p_chunk (mkPos D W)) (dsize r)) as Hcore.
  set (b4 := hints_set_item cf b3 it (p_chunk (mkPos D W)) (dsize r)) in *.
  assert (Hch4 : forall c, chunk_at b4 c = chunk_at b2 c) by (intros c; rewrite (core_chunk_at b4 b3 c Hcore); apply Hch3).
  assert (Hlog4 : forall p, log_find b4 p = log_find b2 p) by (intros p; unfold log_find; now rewrite Hch4).
  assert (Htree4 : forall h', tree_get_slot b4 h' = tree_get_slot b3 h') by (intros h'; apply (core_tree b4 b3 h' Hcore)).
  assert (Htree3 : forall h', h' <> h -> tree_get_slot b3 h' = tree_get_slot b h').
  { intros h' Hne. unfold b3. destruct (tree_get_slot b h); [|reflexivity]. rewrite tree_put_other by congruence. reflexivity. }
  unfold GI. cbn [gc_b gc_dst].
  assert (HW4 : k_whead (chunk_at b4 D) = W + dsize r) by (rewrite Hch4, Hch2, Nat.eqb_refl; exact F3).
  rewrite HW4.
  split; [rewrite (core_head b4 b3 Hcore); unfold b3; destruct (tree_get_slot b h); exact G1|].
  split; [rewrite (core_ctab b4 b3 Hcore); exact Hct3|].
  split; [|split; [|split; [exact G5|split; [exact G6|split; [|split; [|split; [|split; [|split; [|split; [|split; [|split; [|split]]]]]]]]]]]].
  - intros c Hc. rewrite Hch4, Hch2. replace (Nat.eqb c D) with false by (symmetry; apply Nat.eqb_neq; lia). now apply G3.
  - intros c Hc. rewrite Hch4, Hch2. destruct (Nat.eqb c D); [exact F1|now apply G4].
  - rewrite Hch4, Hch2, Nat.eqb_refl. exact F2.
  - rewrite Hch4, Hch2, Nat.eqb_refl. unfold append_gc_chunk. cbn [k_size]. fold W. destruct (k_size kd <=? W + dsize r) eqn:E; lia.
  - intros c Hc. rewrite Hch4, Hch2. replace (Nat.eqb c D) with false by (symmetry; apply Nat.eqb_neq; lia). apply G9. exact Hc.
  - intros e He. rewrite Hch4, Hch2. destruct (Nat.eqb_spec src D) as [E|Hne]; [|apply G10; now right].
    destruct e as [o r0]. apply F5; [unfold kd; rewrite <- E; apply G10; now right|]. right. apply (Hrest _ He). now symmetry.
  - intros E e He. apply (Hrest _ He E).
  - unfold spaced in *. now inversion G12.
  - intros c e Hc He. rewrite Hch4, Hch2 in He. destruct (Nat.eqb_spec c D) as [->|Hne]; [|now apply (G13 c)].
    destruct e as [o r0]. destruct (F6 o r0 He) as [E|Hold]; [|now apply (G13 D)].
    injection E as -> ->. split; [unfold rend; cbn [fst snd]; fold W; lia|exact Hk_e].
  - apply iok_set_item; [|unfold item_ok, it; cbn [hi_key hi_hash]; auto].
    apply (iok_hints_same hf K b); [unfold b3; destruct (tree_get_slot b h); reflexivity|exact G14].
  - intros h' s' Hs'. rewrite Htree4 in Hs'. unfold SlotP. rewrite Hlog4.
    destruct (N.eq_dec h' h) as [->|Hne].
    + (* the relocated key *)
      unfold b3 in Hs'. destruct (tree_get_slot b h) as [s|] eqn:Es.
      * rewrite tree_put_same in Hs'. injection Hs' as <-. cbn [s_pos s_ver s_vh].
        destruct (G15 h s Es) as (r0 & L & A1 & A2 & A3 & A4 & A5 & _). rewrite (Hslot s eq_refl), Hlog_e in L. injection L as <-.
        exists r. split; [exact Hlog_new|]. split; [reflexivity|]. split; [exact A2|]. split; [exact A3|]. split; [exact A4|]. split; [exact A5|].
        right. left. cbn [p_chunk p_off]. split; [reflexivity|lia].
      * change (tree_get_slot b2 h) with (tree_get_slot b h) in Hs'. congruence.
    + rewrite Htree3 in Hs' by exact Hne. destruct (G15 h' s' Hs') as (r0 & L & A1 & A2 & A3 & A4 & A5 & P).
      assert (Hnp : s_pos s' <> mkPos src off) by (intros E; apply Hne; now apply (HU h' s')).
      destruct (Hprot _ r0 L P Hnp) as [L2 P2]. exists r0. repeat (split; [assumption|]). exact P2.
  - intros k Hk. rewrite <- (G16 k Hk). unfold absr. rewrite Htree4.
    destruct (N.eq_dec (hf k) h) as [E|Hne].
    + rewrite E. unfold b3. destruct (tree_get_slot b h) as [s|] eqn:Es; [|change (tree_get_slot b2 h) with (tree_get_slot b h); now rewrite Es].
      rewrite tree_put_same. cbn [s_pos s_ver s_vh]. rewrite Hlog4, Hlog_new. rewrite (Hslot s eq_refl), Hlog_e. reflexivity.
    + rewrite Htree3 by exact Hne. destruct (tree_get_slot b (hf k)) as [s|] eqn:Es; [|reflexivity].
      destruct (G15 _ s Es) as (r0 & L & _ & _ & _ & _ & _ & P).
      assert (Hnp : s_pos s <> mkPos src off) by (intros E; apply Hne; now apply (HU _ s)).
      destruct (Hprot _ r0 L P Hnp) as [L2 _]. now rewrite Hlog4, L2, L.
Qed.

Lemma pos_eqb_true a b : pos_eqb a b = true <-> a = b.
Proof. apply pos_eqb_eq. Qed.

(* ---- one record of a source file ---- *)
Lemma gc_record_inv st src e R' : GI st src (e :: R') -> GI (gc_record cf hf begin_ src st e) src R'.
Proof.
  intros HG. destruct e as [off r]. pose proof HG as (G1 & G2 & G3 & G4 & G5 & G6 & G7 & G8 & G9 & G10 & G11 & G12 & G13 & G14 & G15 & G16).
  cbv zeta in G1, G2, G3, G4, G5, G6, G7, G8, G9, G10, G11, G12, G13, G14, G15, G16.
  set (b := gc_b st) in *. set (D := gc_dst st) in *. set (h := hf (d_key r)). set (oldp := mkPos src off).
  assert (Hin_e : In (off, r) (k_disk (chunk_at b src))) by (apply G10; now left).
  destruct (G13 src (off, r) G6 Hin_e) as [Hfm_e Hk_e]. cbn [snd] in Hk_e. unfold rend in Hfm_e. cbn [fst snd] in Hfm_e.
  assert (Hlog_e : log_find b oldp = Some r).
  { rewrite log_find_gchunk by (cbn [p_chunk]; now apply G4). cbn [p_chunk p_off]. apply find_off_in_nodup; [apply (G4 src G6)|exact Hin_e]. }
  assert (HU : forall h' s', tree_get_slot b h' = Some s' -> s_pos s' = oldp -> h' = h).
  { intros h' s' Hs' Hp. destruct (G15 h' s' Hs') as (r0 & L & A1 & _). rewrite Hp, Hlog_e in L. injection L as <-. now symmetry. }
  (* the copy, whatever statistics and value hash go with it *)
  assert (Hcopy : forall gs' vh, (forall s, tree_get_slot b h = Some s -> s_pos s = oldp) ->
     GI (let '(b1, dst) := if c_filemax cf <? dsize r + k_whead (chunk_at b D)
                           then (begin_gc_writing (trydump (end_gc_writing b D) D true) (S D) src, S D) else (b, D) in
         let '(b2, noff) := append_gc b1 dst r in
         let b3 := match tree_get_slot b h with
                   | Some _ => match tree_get_slot b2 h with
                               | Some s => if gc_repoint_conditional && negb (pos_eqb (s_pos s) oldp) then b2
                                           else tree_put b2 h (mkSlot (mkPos dst noff) (s_ver s) (s_vh s))
                               | None => b2 end
                   | None => b2 end in
         mkGC (hints_set cf b3 h (d_key r) (d_ver r) vh (mkPos dst noff) (dsize r) true) dst gs') src R').
  { intros gs' vh Hslot. destruct (c_filemax cf <? dsize r + k_whead (chunk_at b D)) eqn:Efull.
    - destruct (gi_switch st src off r R' HG ltac:(fold b D; lia)) as (HS & HW0 & Htr). cbv zeta in HS, HW0, Htr. fold b D in HS, HW0, Htr.
      set (b1 := begin_gc_writing (trydump (end_gc_writing b D) D true) (S D) src) in *.
      pose proof (gi_append (mkGC b1 (S D) (gc_stat st)) src off r R' gs' vh HS) as HA. cbv zeta in HA. cbn [gc_b gc_dst] in HA.
      rewrite HW0 in HA. specialize (HA ltac:(lia)).
      rewrite append_gc_eq. rewrite append_gc_eq in HA. cbn [fst] in HA. rewrite HW0 in *.
      change (tree_get_slot (set_chunk b1 (S D) (append_gc_chunk (chunk_at b1 (S D)) r)) h) with (tree_get_slot b1 h). rewrite !Htr in *.
      fold h in HA. destruct (tree_get_slot b h) as [s|] eqn:Es.
      + rewrite (Hslot s eq_refl). replace (pos_eqb oldp oldp) with true by (symmetry; now apply pos_eqb_true). rewrite andb_false_r. cbn [negb].
        apply HA. intros s' Hs'. injection Hs' as <-. now apply Hslot.
      + apply HA. intros s' Hs'. discriminate.
    - pose proof (gi_append st src off r R' gs' vh HG) as HA. cbv zeta in HA. fold b D in HA.
      specialize (HA ltac:(lia)). rewrite append_gc_eq. rewrite append_gc_eq in HA. cbn [fst] in HA.
      change (tree_get_slot (set_chunk b D (append_gc_chunk (chunk_at b D) r)) h) with (tree_get_slot b h).
      fold h in HA. destruct (tree_get_slot b h) as [s|] eqn:Es.
      + rewrite (Hslot s eq_refl). replace (pos_eqb oldp oldp) with true by (symmetry; now apply pos_eqb_true). rewrite andb_false_r. cbn [negb].
        apply HA. intros s' Hs'. injection Hs' as <-. now apply Hslot.
      + apply HA. intros s' Hs'. discriminate. }
  unfold gc_record. fold b D h oldp.
  destruct (tree_get_slot b h) as [s|] eqn:Es.
  - destruct (pos_eqb oldp (s_pos s)) eqn:Ep.
    + (* the tree points at this record *)
      cbn [negb]. apply pos_eqb_true in Ep. apply Hcopy. intros s' Hs'. injection Hs' as <-. now symmetry.
    + (* the tree points elsewhere and no collision can be reported: superseded *)
      pose proof (no_collision hf K hf_inj b h (d_key r) G14 G2 Hk_e eq_refl) as Hnc.
      destruct (get_collision_gc b h (d_key r)) as [x c]. cbn [snd] in Hnc. subst c.
      assert (Hdrop : forall gs', GI (mkGC b D gs') src R').
      { intros gs'. apply (gi_drop st gs' src off r R' HG). intros h' s' Hs' Hp. fold b in Hs'.
        assert (h' = h) by (now apply (HU h' s')). subst h'. rewrite Es in Hs'. injection Hs' as <-.
        fold oldp in Hp. rewrite Hp in Ep. assert (pos_eqb oldp oldp = true) by (now apply pos_eqb_true). congruence. }
      destruct x as [[it ck]|]; cbn [negb]; apply Hdrop.
  - destruct (Nat.ltb 0 begin_ && (d_ver r <? 0)%Z) eqn:En; cbn [negb].
    + apply Hcopy. intros s' Hs'. discriminate.
    + apply (gi_drop st _ src off r R' HG). intros h' s' Hs' Hp. fold b in Hs'.
      assert (h' = h) by (now apply (HU h' s')). subst h'. congruence.
Qed.

Lemma gc_records_inv src : forall recs st, GI st src recs -> GI (fold_left (gc_record cf hf begin_ src) recs st) src [].
Proof.
  induction recs as [|e recs IH]; intros st HG; cbn [fold_left]; [exact HG|]. apply IH. now apply gc_record_inv.
Qed.

(* ---- chunk-level side invariant: the destination is either being rewritten in place or appended to at its
   end, and every other chunk below the head is in its normal form ---- *)
Definition GX (st : gcst) : Prop :=
  let b := gc_b st in let D := gc_dst st in
  (k_rewriting (chunk_at b D) = true \/ k_whead (chunk_at b D) = k_size (chunk_at b D)) /\
  (forall c, (c < H0)%nat -> c <> D -> chunk_ok (chunk_at b c)).

Lemma chunk_ok_of_g k : gchunk k -> Forall (fun e => rend e <= k_whead k) (k_disk k) -> chunk_ok k.
Proof.
  intros (Hw & He & _ & _) Hall. unfold chunk_ok, wstart. rewrite Hw. split; [|split; [intros o r0 []|split; [exact He|lia]]].
  intros o r0 Hin. rewrite Forall_forall in Hall. specialize (Hall _ Hin). unfold rend in Hall. cbn [fst snd] in Hall. pose proof (dsize_pos r0). lia.
Qed.

Lemma gx_record st src e R' : GI st src (e :: R') -> GX st -> GX (gc_record cf hf begin_ src st e).
Proof.
  intros HG [X1 X2]. destruct e as [off r]. pose proof HG as (G1 & G2 & G3 & G4 & G5 & G6 & G7 & G8 & _).
  cbv zeta in G1, G2, G3, G4, G5, G6, G7, G8, X1, X2.
  set (b := gc_b st) in *. set (D := gc_dst st) in *.
  assert (HDlt : (D < H0)%nat) by lia.
  (* the data side of the copy *)
  assert (Hcopy : forall gs' vh b3f,
     (forall x d n, b_chunks (b3f x d n) = b_chunks x) ->
     GX (let '(b1, dst) := if c_filemax cf <? dsize r + k_whead (chunk_at b D)
                           then (begin_gc_writing (trydump (end_gc_writing b D) D true) (S D) src, S D) else (b, D) in
         let '(b2, noff) := append_gc b1 dst r in
         mkGC (hints_set cf (b3f b2 dst noff) (hf (d_key r)) (d_key r) (d_ver r) vh (mkPos dst noff) (dsize r) true) dst gs')).
  { intros gs' vh b3f Hb3f.
    assert (Hfin : forall b1 dst, (k_rewriting (chunk_at b1 dst) = true \/ k_whead (chunk_at b1 dst) = k_size (chunk_at b1 dst)) ->
              (forall c, (c < H0)%nat -> c <> dst -> chunk_ok (chunk_at b1 c)) ->
              GX (let '(b2, noff) := append_gc b1 dst r in
                  mkGC (hints_set cf (b3f b2 dst noff) (hf (d_key r)) (d_key r) (d_ver r) vh (mkPos dst noff) (dsize r) true) dst gs')).
    { intros b1 dst Y1 Y2. rewrite append_gc_eq. unfold GX. cbn [gc_b gc_dst].
      set (b2 := set_chunk b1 dst (append_gc_chunk (chunk_at b1 dst) r)).
      assert (Hc : forall c, chunk_at (hints_set cf (b3f b2 dst (k_whead (chunk_at b1 dst))) (hf (d_key r)) (d_key r) (d_ver r) vh (mkPos dst (k_whead (chunk_at b1 dst))) (dsize r) true) c = chunk_at b2 c).
      { intros c. generalize (mkPos dst (k_whead (chunk_at b1 dst))). intros pp. generalize (k_whead (chunk_at b1 dst)). intros nn.
        pose proof (hints_set_dat cf (b3f b2 dst nn) (hf (d_key r)) (d_key r) (d_ver r) vh pp (dsize r) true) as Hd.
        unfold dat in Hd. injection Hd as Hd _. unfold chunk_at. now rewrite Hd, Hb3f. }
      split.
      - rewrite Hc. unfold b2. rewrite chunk_at_set_same. unfold append_gc_chunk. cbn [k_rewriting k_whead k_size].
        destruct Y1 as [Y1|Y1]; [now left|right]. rewrite Y1. replace (k_size (chunk_at b1 dst) <=? k_size (chunk_at b1 dst) + dsize r) with true by lia. reflexivity.
      - intros c Hc1 Hc2. rewrite Hc. unfold b2. rewrite chunk_at_set_other by congruence. now apply Y2. }
    destruct (c_filemax cf <? dsize r + k_whead (chunk_at b D)) eqn:Efull.
    - (* switch *)
      rewrite end_gc_eq, begin_gc_eq.
      set (b1 := set_chunk b D (end_gc_chunk (chunk_at b D))).
      pose proof (trydump_core b1 D true) as Hcore. set (b2 := trydump b1 D true) in *.
      assert (Hc2 : forall c, chunk_at b2 c = chunk_at b1 c) by (intros c; apply (core_chunk_at b2 b1 c Hcore)).
      apply Hfin.
      + rewrite chunk_at_set_same. unfold begin_gc_chunk. destruct (Nat.eqb (S D) src); cbn [k_rewriting k_whead k_size]; [now left|now right].
      + intros c Hc1 Hc2'. rewrite chunk_at_set_other by congruence. rewrite Hc2. unfold b1.
        destruct (Nat.eq_dec D c) as [<-|Hne]; [|rewrite chunk_at_set_other by exact Hne; apply X2; [exact Hc1|congruence]].
        rewrite chunk_at_set_same.
        destruct (end_gc_chunk_facts (chunk_at b D) (G4 D HDlt) G7 G8) as (E1 & _ & _ & _ & E5 & _). cbv zeta in E1, E5.
        destruct (E5 X1) as [E5a _]. now apply chunk_ok_of_g.
    - now apply Hfin. }
  unfold gc_record. fold b D.
  destruct (tree_get_slot b (hf (d_key r))) as [s|] eqn:Es.
  - destruct (pos_eqb (mkPos src off) (s_pos s)).
    + cbn [negb]. apply (Hcopy _ _ (fun b2 dst noff => match tree_get_slot b2 (hf (d_key r)) with
                                         | Some s0 => if gc_repoint_conditional && negb (pos_eqb (s_pos s0) (mkPos src off)) then b2
                                                      else tree_put b2 (hf (d_key r)) (mkSlot (mkPos dst noff) (s_ver s0) (s_vh s0))
                                         | None => b2 end)).
      intros x d n. destruct (tree_get_slot x _); [destruct (_ && _)|]; reflexivity.
    + destruct (get_collision_gc b (hf (d_key r)) (d_key r)) as [[[it ck]|] [|]]; try (cbn [negb]; split; assumption).
      * destruct (pos_eqb _ _); cbn [negb]; [|split; assumption].
        apply (Hcopy _ _ (fun b2 dst noff => match tree_get_slot b2 (hf (d_key r)) with
                                    | Some s0 => if gc_repoint_conditional && negb (pos_eqb (s_pos s0) (mkPos src off)) then b2
                                                 else tree_put b2 (hf (d_key r)) (mkSlot (mkPos dst noff) (s_ver s0) (s_vh s0))
                                    | None => b2 end)).
        intros x d n. destruct (tree_get_slot x _); [destruct (_ && _)|]; reflexivity.
      * cbn [negb]. apply (Hcopy _ _ (fun b2 dst noff => match tree_get_slot b2 (hf (d_key r)) with
                                    | Some s0 => if gc_repoint_conditional && negb (pos_eqb (s_pos s0) (mkPos src off)) then b2
                                                 else tree_put b2 (hf (d_key r)) (mkSlot (mkPos dst noff) (s_ver s0) (s_vh s0))
                                    | None => b2 end)).
        intros x d n. destruct (tree_get_slot x _); [destruct (_ && _)|]; reflexivity.
  - destruct (_ && _); cbn [negb]; [|split; assumption]. apply (Hcopy _ _ (fun b2 _ _ => b2)). reflexivity.
Qed.

Lemma gc_records_both src : forall recs st, GI st src recs -> GX st ->
  GI (fold_left (gc_record cf hf begin_ src) recs st) src [] /\ GX (fold_left (gc_record cf hf begin_ src) recs st).
Proof.
  induction recs as [|e recs IH]; intros st HG HX; cbn [fold_left]; [split; assumption|].
  apply IH; [now apply gc_record_inv|now apply (gx_record st src e recs)].
Qed.

(* GI only looks at chunks, head, tree, collision table and the hint items *)
Lemma gi_frame b' D stat' st src R :
  gc_dst st = D -> core b' = core (gc_b st) -> IOK hf K b' -> GI st src R -> GI (mkGC b' D stat') src R.
Proof.
  intros HD Hcore Hiok (G1 & G2 & G3 & G4 & G5 & G6 & G7 & G8 & G9 & G10 & G11 & G12 & G13 & G14 & G15 & G16). cbv zeta in *.
  assert (Hca : forall c, chunk_at b' c = chunk_at (gc_b st) c) by (intros c; apply (core_chunk_at _ _ c Hcore)).
  assert (Hlf : forall p, log_find b' p = log_find (gc_b st) p) by (intros p; apply (log_find_core _ _ p Hcore)).
  assert (Htr : forall h, tree_get_slot b' h = tree_get_slot (gc_b st) h) by (intros h; apply (core_tree _ _ h Hcore)).
  unfold GI. cbn [gc_b gc_dst]. subst D. rewrite !Hca.
  split; [rewrite (core_head _ _ Hcore); exact G1|]. split; [rewrite (core_ctab _ _ Hcore); exact G2|].
  split; [intros c Hc; rewrite Hca; now apply G3|]. split; [intros c Hc; rewrite Hca; now apply G4|].
  split; [exact G5|]. split; [exact G6|]. split; [exact G7|]. split; [exact G8|].
  split; [intros c Hc; rewrite Hca; now apply G9|]. split; [exact G10|]. split; [exact G11|]. split; [exact G12|].
  split; [intros c e Hc He; rewrite Hca in He; now apply (G13 c)|]. split; [exact Hiok|]. split.
  - intros h s Hs. rewrite Htr in Hs. destruct (G15 h s Hs) as (r0 & L & Hrest). exists r0. rewrite Hlf. auto.
  - intros k Hk. rewrite <- (G16 k Hk). apply absr_core. exact Hcore.
Qed.

Lemma gx_frame b' D stat' st : gc_dst st = D -> (forall c, chunk_at b' c = chunk_at (gc_b st) c) -> GX st -> GX (mkGC b' D stat').
Proof. intros HD Hca [X1 X2]. unfold GX. cbn [gc_b gc_dst]. subst D. rewrite Hca. split; [exact X1|]. intros c H1 H2. rewrite Hca. now apply X2. Qed.

(* the emptied source file is removed *)
Lemma gi_clear st src stat' : GI st src [] -> gc_dst st <> src -> GI (mkGC (clear_chunk (gc_b st) src) (gc_dst st) stat') src [].
Proof.
  intros (G1 & G2 & G3 & G4 & G5 & G6 & G7 & G8 & G9 & G10 & G11 & G12 & G13 & G14 & G15 & G16) Hne. cbv zeta in *.
  set (b := gc_b st) in *. set (D := gc_dst st) in *. unfold clear_chunk.
  assert (Hca : forall c, chunk_at (set_chunk b src chunk0) c = if Nat.eqb c src then chunk0 else chunk_at b c).
  { intros c. destruct (Nat.eqb_spec c src) as [->|H]; [apply chunk_at_set_same|]. apply chunk_at_set_other. congruence. }
  assert (HnoS : forall h s, tree_get_slot b h = Some s -> p_chunk (s_pos s) <> src).
  { intros h s Hs. destruct (G15 h s Hs) as (r0 & _ & _ & _ & _ & _ & _ & P). destruct P as [[_ P]|[[P _]|[_ []]]]; congruence. }
  unfold GI. cbn [gc_b gc_dst]. rewrite !Hca. replace (Nat.eqb D src) with false by (symmetry; apply Nat.eqb_neq; exact Hne).
  split; [exact G1|]. split; [exact G2|].
  split; [intros c Hc; rewrite Hca; replace (Nat.eqb c src) with false by (symmetry; apply Nat.eqb_neq; lia); now apply G3|].
  split; [intros c Hc; rewrite Hca; destruct (Nat.eqb c src); [repeat split; try reflexivity; constructor|now apply G4]|].
  split; [exact G5|]. split; [exact G6|]. split; [exact G7|]. split; [exact G8|].
  split; [intros c Hc; rewrite Hca; replace (Nat.eqb c src) with false by (symmetry; apply Nat.eqb_neq; lia); now apply G9|].
  split; [intros e []|]. split; [intros _ e []|]. split; [constructor|].
  split; [intros c e Hc He; rewrite Hca in He; destruct (Nat.eqb c src); [destruct He|now apply (G13 c)]|].
  split; [apply (iok_hints_same hf K b); [reflexivity|exact G14]|]. split.
  - intros h s Hs. change (tree_get_slot (set_chunk b src chunk0) h) with (tree_get_slot b h) in Hs.
    destruct (G15 h s Hs) as (r0 & L & A). exists r0. split; [|exact A]. rewrite log_find_set_other; [exact L|now apply (HnoS h s)].
  - intros k Hk. rewrite <- (G16 k Hk). unfold absr. change (tree_get_slot (set_chunk b src chunk0) (hf k)) with (tree_get_slot b (hf k)).
    destruct (tree_get_slot b (hf k)) as [s|] eqn:Es; [|reflexivity]. rewrite log_find_set_other; [reflexivity|now apply (HnoS (hf k) s)].
Qed.

(* on to the next source file *)
Lemma gi_next st src : GI st src [] ->
  (gc_dst st <> src -> k_disk (chunk_at (gc_b st) src) = [] /\ k_size (chunk_at (gc_b st) src) = 0) ->
  (S src < H0)%nat -> spaced (k_disk (chunk_at b0 (S src))) ->
  GI st (S src) (k_disk (chunk_at (gc_b st) (S src))).
Proof.
  intros (G1 & G2 & G3 & G4 & G5 & G6 & G7 & G8 & G9 & G10 & G11 & G12 & G13 & G14 & G15 & G16) Hemp Hlt Hsp. cbv zeta in *.
  set (b := gc_b st) in *. set (D := gc_dst st) in *.
  unfold GI. fold b D.
  split; [exact G1|]. split; [exact G2|]. split; [intros c Hc; apply G3; lia|]. split; [exact G4|]. split; [lia|]. split; [exact Hlt|].
  split; [exact G7|]. split; [exact G8|]. split.
  { intros c Hc. destruct (Nat.eq_dec c src) as [->|Hne]; [apply Hemp; lia|apply G9; lia]. }
  split; [auto|]. split; [intros E; lia|]. split; [rewrite G3 by (right; lia); exact Hsp|]. split; [exact G13|]. split; [exact G14|]. split; [|exact G16].
  intros h s Hs. destruct (G15 h s Hs) as (r0 & L & A1 & A2 & A3 & A4 & A5 & P). exists r0. repeat (split; [assumption|]).
  destruct P as [[P1 P2]|[[P1 P2]|[_ []]]]; [|right; left; now split].
  destruct (Nat.eq_dec (p_chunk (s_pos s)) (S src)) as [E|Hne]; [|left; now split].
  right. right. split; [exact E|]. rewrite log_find_gchunk in L by (rewrite E; now apply G4). rewrite E in L. now apply find_off_some_in.
Qed.

Lemma gchunk_size0 k : gchunk k -> k_size k = 0 -> k_disk k = [].
Proof.
  intros (_ & _ & _ & Hsz) H0s. destruct (k_disk k) as [|e l]; [reflexivity|]. inversion Hsz as [|? ? He _]; subst.
  unfold rend in He. pose proof (dsize_pos (snd e)). lia.
Qed.

(* one source file *)
Lemma gc_file_step st src : GI st src (k_disk (chunk_at (gc_b st) src)) -> GX st ->
  let st' := gc_file cf hf begin_ st src in
  GI st' src [] /\ GX st' /\
  (gc_dst st' <> src -> k_disk (chunk_at (gc_b st') src) = [] /\ k_size (chunk_at (gc_b st') src) = 0).
Proof.
  intros HG HX. cbv zeta. unfold gc_file. pose proof HG as (_ & _ & _ & G4 & _ & G6 & _). cbv zeta in G4, G6.
  destruct (k_size (chunk_at (gc_b st) src) =? 0) eqn:Ez.
  - apply N.eqb_eq in Ez. pose proof (gchunk_size0 _ (G4 src G6) Ez) as Hd. rewrite Hd in HG.
    split; [exact HG|]. split; [exact HX|]. intros _. split; assumption.
  - set (b := gc_b st) in *. set (recs := k_disk (chunk_at b src)) in *.
    set (st1 := mkGC (clear_hint_chunk b src) (gc_dst st) (gc_stat st)).
    assert (HG1 : GI st1 src recs).
    { apply (gi_frame (clear_hint_chunk b src) (gc_dst st) (gc_stat st) st src recs eq_refl); [reflexivity| |exact HG].
      apply iok_clear. apply HG. }
    assert (HX1 : GX st1) by (apply (gx_frame (clear_hint_chunk b src) (gc_dst st) (gc_stat st) st eq_refl); [reflexivity|exact HX]).
    destruct (gc_records_both src recs st1 HG1 HX1) as [HG2 HX2].
    set (st2 := fold_left (gc_record cf hf begin_ src) recs st1) in *.
    change gc_truncates_after_inplace with false. cbn [andb].
    destruct (Nat.eqb_spec src (gc_dst st2)) as [E|Hne].
    + (* rewritten in place *)
      set (b4 := if Nat.leb (b_nextgc (gc_b st2)) (S src) then set_nextgc (gc_b st2) (S src) else gc_b st2).
      assert (Hc4 : core b4 = core (gc_b st2)) by (unfold b4; destruct (Nat.leb _ _); reflexivity).
      split; [|split].
      * apply (gi_frame b4 (gc_dst st2) (gc_stat st2) st2 src [] eq_refl Hc4); [|exact HG2].
        apply (iok_hints_same hf K (gc_b st2)); [unfold b4; destruct (Nat.leb _ _); reflexivity|apply HG2].
      * apply (gx_frame b4 (gc_dst st2) (gc_stat st2) st2 eq_refl); [intros c; apply (core_chunk_at _ _ c Hc4)|exact HX2].
      * cbn [gc_dst]. intros H. congruence.
    + set (b3 := clear_chunk (gc_b st2) src).
      set (b4 := if Nat.leb (b_nextgc b3) (S src) then set_nextgc b3 (S src) else b3).
      assert (Hc4 : core b4 = core b3) by (unfold b4; destruct (Nat.leb _ _); reflexivity).
      pose proof (gi_clear st2 src (gc_stat st2) HG2 ltac:(congruence)) as HG3. fold b3 in HG3.
      split; [|split].
      * apply (gi_frame b4 (gc_dst st2) (gc_stat st2) (mkGC b3 (gc_dst st2) (gc_stat st2)) src [] eq_refl Hc4); [|exact HG3].
        apply (iok_hints_same hf K b3); [unfold b4; destruct (Nat.leb _ _); reflexivity|apply HG3].
      * apply (gx_frame b4 (gc_dst st2) (gc_stat st2) (mkGC b3 (gc_dst st2) (gc_stat st2)) eq_refl); [intros c; apply (core_chunk_at _ _ c Hc4)|].
        destruct HX2 as [X1 X2]. unfold GX. cbn [gc_b gc_dst]. unfold b3, clear_chunk. rewrite chunk_at_set_other by congruence.
        split; [exact X1|]. intros c H1 H2. destruct (Nat.eq_dec src c) as [<-|Hn]; [rewrite chunk_at_set_same; apply chunk0_ok|].
        rewrite chunk_at_set_other by exact Hn. now apply X2.
      * cbn [gc_dst gc_b]. intros _. rewrite (core_chunk_at b4 b3 src Hc4). unfold b3, clear_chunk. rewrite chunk_at_set_same. split; reflexivity.
Qed.

(* all source files of the range *)
Lemma gc_files_inv : forall n src st,
  GI st src (k_disk (chunk_at (gc_b st) src)) -> GX st -> (src + n < H0)%nat ->
  (forall c, (c < H0)%nat -> spaced (k_disk (chunk_at b0 c))) ->
  let st' := fold_left (gc_file cf hf begin_) (seq src (S n)) st in
  GI st' (src + n)%nat [] /\ GX st'.
Proof.
  induction n as [|n IH]; intros src st HG HX Hlt Hsp; cbn [seq fold_left]; cbv zeta.
  - rewrite Nat.add_0_r. destruct (gc_file_step st src HG HX) as (H1 & H2 & _). split; assumption.
  - destruct (gc_file_step st src HG HX) as (H1 & H2 & H3). cbv zeta in H1, H2, H3.
    set (st1 := gc_file cf hf begin_ st src) in *.
    pose proof (gi_next st1 src H1 H3 ltac:(lia) (Hsp (S src) ltac:(lia))) as HGn.
    replace (src + S n)%nat with (S src + n)%nat by lia.
    apply (IH (S src) st1 HGn H2); [lia|exact Hsp].
Qed.
End GV2.

(* the invariant pins every read: the index entry and the WHOLE record it points at are those of before the pass *)
Lemma gi_same_entries cf hf K b0 st src R : GI cf hf K b0 st src R -> forall k, In k K -> absr hf (gc_b st) k = absr hf b0 k.
Proof. intros H. apply H. Qed.
Lemma gi_same_reads cf hf K b0 st src R : GI cf hf K b0 st src R -> forall k, In k K -> abs hf (gc_b st) k = abs hf b0 k.
Proof. intros H k Hk. apply abs_of_absr. now apply (gi_same_entries cf hf K b0 st src R). Qed.

(* ---- what one GC step does to the data files, whatever the tree says ---- *)
Lemma hints_set_chunks cf b h key ver vh p rs gc c : chunk_at (hints_set cf b h key ver vh p rs gc) c = chunk_at b c.
Proof.
  unfold hints_set. rewrite (core_chunk_at _ _ c (hints_set_item_core cf _ _ _ _)). destruct (ct_has_hash (b_ctab b) h); reflexivity.
Qed.

Definition rec_dropped (st st' : gcst) : Prop :=
  gc_dst st' = gc_dst st /\ forall c, chunk_at (gc_b st') c = chunk_at (gc_b st) c.
Definition rec_appended (st st' : gcst) (r : drec) : Prop :=
  gc_dst st' = gc_dst st /\
  forall c, chunk_at (gc_b st') c = if Nat.eqb c (gc_dst st) then append_gc_chunk (chunk_at (gc_b st) (gc_dst st)) r else chunk_at (gc_b st) c.
Definition rec_switched (cf : cfg) (src : nat) (st st' : gcst) (r : drec) : Prop :=
  let D := gc_dst st in let b := gc_b st in
  c_filemax cf < dsize r + k_whead (chunk_at b D) /\ gc_dst st' = S D /\
  forall c, chunk_at (gc_b st') c =
            if Nat.eqb c (S D) then append_gc_chunk (begin_gc_chunk (chunk_at b (S D)) (Nat.eqb (S D) src)) r
            else if Nat.eqb c D then end_gc_chunk (chunk_at b D) else chunk_at b c.

Lemma gc_record_shape cf hf begin_ src st e :
  let st' := gc_record cf hf begin_ src st e in
  rec_dropped st st' \/ rec_appended st st' (snd e) \/ rec_switched cf src st st' (snd e).
Proof.
  cbv zeta. destruct e as [off r]. cbn [snd]. set (b := gc_b st). set (D := gc_dst st). set (h := hf (d_key r)). set (oldp := mkPos src off).
  assert (Hdrop : forall gs', rec_dropped st (mkGC b D gs')) by (intros gs'; split; [reflexivity|intros c; reflexivity]).
  assert (Hcopy : forall gs' vh (found : option slot),
     let st' := (let '(b1, dst) := if c_filemax cf <? dsize r + k_whead (chunk_at b D)
                           then (begin_gc_writing (trydump (end_gc_writing b D) D true) (S D) src, S D) else (b, D) in
         let '(b2, noff) := append_gc b1 dst r in
         let b3 := match found with
                   | Some _ => match tree_get_slot b2 h with
                               | Some s => if gc_repoint_conditional && negb (pos_eqb (s_pos s) oldp) then b2
                                           else tree_put b2 h (mkSlot (mkPos dst noff) (s_ver s) (s_vh s))
                               | None => b2 end
                   | None => b2 end in
         mkGC (hints_set cf b3 h (d_key r) (d_ver r) vh (mkPos dst noff) (dsize r) true) dst gs') in
     rec_appended st st' r \/ rec_switched cf src st st' r).
  { intros gs' vh found. cbv zeta. destruct (c_filemax cf <? dsize r + k_whead (chunk_at b D)) eqn:Efull.
    - right. rewrite append_gc_eq. split; [fold b D; lia|]. split; [reflexivity|]. intros c. cbn [gc_b]. rewrite hints_set_chunks.
      set (b1 := begin_gc_writing (trydump (end_gc_writing b D) D true) (S D) src).
      set (b2 := set_chunk b1 (S D) (append_gc_chunk (chunk_at b1 (S D)) r)).
      assert (E : forall b3, (b3 = b2 \/ exists s, b3 = tree_put b2 h s) -> chunk_at b3 c = chunk_at b2 c) by (intros b3 [->|[s ->]]; reflexivity).
      rewrite E by (destruct found; [destruct (tree_get_slot b2 h); [destruct (_ && _); [now left|right; eauto]|now left]|now left]).
      unfold b2, b1. rewrite begin_gc_eq, end_gc_eq. fold b D.
      destruct (Nat.eqb_spec c (S D)) as [->|Hne]; [rewrite !chunk_at_set_same; rewrite (core_chunk_at _ _ (S D) (trydump_core _ D true)); rewrite chunk_at_set_other by lia; reflexivity|].
      rewrite !chunk_at_set_other by congruence. rewrite (core_chunk_at _ _ c (trydump_core _ D true)).
      destruct (Nat.eqb_spec c D) as [->|Hne2]; [apply chunk_at_set_same|apply chunk_at_set_other; congruence].
    - left. rewrite append_gc_eq. split; [reflexivity|]. intros c. cbn [gc_b]. rewrite hints_set_chunks.
      set (b2 := set_chunk b D (append_gc_chunk (chunk_at b D) r)).
      assert (E : forall b3, (b3 = b2 \/ exists s, b3 = tree_put b2 h s) -> chunk_at b3 c = chunk_at b2 c) by (intros b3 [->|[s ->]]; reflexivity).
      rewrite E by (destruct found; [destruct (tree_get_slot b2 h); [destruct (_ && _); [now left|right; eauto]|now left]|now left]).
      unfold b2. fold b D. destruct (Nat.eqb_spec c D) as [->|Hne]; [apply chunk_at_set_same|apply chunk_at_set_other; congruence]. }
  unfold gc_record. fold b D h oldp.
  destruct (tree_get_slot b h) as [s|] eqn:Es.
  - destruct (pos_eqb oldp (s_pos s)) eqn:Ep.
    + cbn [negb]. right. apply (Hcopy _ _ (Some s)).
    + destruct (get_collision_gc b h (d_key r)) as [[[it ck]|] []]; try (cbn [negb]; left; apply Hdrop).
      * destruct (pos_eqb (mkPos ck (hi_off it)) oldp); cbn [negb]; [right; apply (Hcopy _ _ (Some s))|left; apply Hdrop].
      * cbn [negb]. right. apply (Hcopy _ _ (Some s)).
  - destruct (Nat.ltb 0 begin_ && (d_ver r <? 0)%Z); cbn [negb]; [right; apply (Hcopy _ _ None)|left; apply Hdrop].
Qed.

(* ---- what one GC step does to the index and to the counters ---- *)
Lemma hints_set_tree cf b h key ver vh p rs gc h' : tree_get_slot (hints_set cf b h key ver vh p rs gc) h' = tree_get_slot b h'.
Proof.
  unfold hints_set. rewrite (core_tree _ _ h' (hints_set_item_core cf _ _ _ _)). destruct (ct_has_hash (b_ctab b) h); reflexivity.
Qed.

Lemma gc_record_tree cf hf begin_ src st e :
  let st' := gc_record cf hf begin_ src st e in let h := hf (d_key (snd e)) in
  (forall h', h' <> h -> tree_get_slot (gc_b st') h' = tree_get_slot (gc_b st) h') /\
  (tree_get_slot (gc_b st) h = None -> tree_get_slot (gc_b st') h = None).
Proof.
  cbv zeta. destruct e as [off r]. cbn [snd]. set (b := gc_b st). set (D := gc_dst st). set (h := hf (d_key r)). set (oldp := mkPos src off).
  assert (Hdrop : forall gs', (forall h', h' <> h -> tree_get_slot (gc_b (mkGC b D gs')) h' = tree_get_slot b h') /\
                              (tree_get_slot b h = None -> tree_get_slot (gc_b (mkGC b D gs')) h = None)) by (intros gs'; split; auto).
  assert (Hcopy : forall gs' vh,
     let st' := (let '(b1, dst) := if c_filemax cf <? dsize r + k_whead (chunk_at b D)
                           then (begin_gc_writing (trydump (end_gc_writing b D) D true) (S D) src, S D) else (b, D) in
         let '(b2, noff) := append_gc b1 dst r in
         let b3 := match tree_get_slot b h with
                   | Some _ => match tree_get_slot b2 h with
                               | Some s => if gc_repoint_conditional && negb (pos_eqb (s_pos s) oldp) then b2
                                           else tree_put b2 h (mkSlot (mkPos dst noff) (s_ver s) (s_vh s))
                               | None => b2 end
                   | None => b2 end in
         mkGC (hints_set cf b3 h (d_key r) (d_ver r) vh (mkPos dst noff) (dsize r) true) dst gs') in
     (forall h', h' <> h -> tree_get_slot (gc_b st') h' = tree_get_slot b h') /\
     (tree_get_slot b h = None -> tree_get_slot (gc_b st') h = None)).
  { intros gs' vh. cbv zeta.
    assert (Hb1 : forall h', tree_get_slot (begin_gc_writing (trydump (end_gc_writing b D) D true) (S D) src) h' = tree_get_slot b h').
    { intros h'. rewrite begin_gc_eq, end_gc_eq. change (tree_get_slot (set_chunk ?x ?c ?k) h') with (tree_get_slot x h').
      rewrite (core_tree _ _ h' (trydump_core _ D true)). reflexivity. }
    destruct (c_filemax cf <? dsize r + k_whead (chunk_at b D)); rewrite append_gc_eq; cbn [gc_b].
    - set (b1 := begin_gc_writing (trydump (end_gc_writing b D) D true) (S D) src) in *.
      set (b2 := set_chunk b1 (S D) (append_gc_chunk (chunk_at b1 (S D)) r)).
      assert (H2 : forall h', tree_get_slot b2 h' = tree_get_slot b h') by (intros h'; change (tree_get_slot b2 h') with (tree_get_slot b1 h'); apply Hb1).
      split.
      + intros h' Hne. rewrite hints_set_tree. destruct (tree_get_slot b h); [|apply H2].
        destruct (tree_get_slot b2 h); [|apply H2]. destruct (_ && _); [apply H2|]. rewrite tree_put_other by congruence. apply H2.
      + intros Hn. rewrite hints_set_tree, Hn, H2. exact Hn.
    - set (b2 := set_chunk b D (append_gc_chunk (chunk_at b D) r)).
      assert (H2 : forall h', tree_get_slot b2 h' = tree_get_slot b h') by (intros h'; reflexivity).
      split.
      + intros h' Hne. rewrite hints_set_tree. destruct (tree_get_slot b h); [|apply H2].
        destruct (tree_get_slot b2 h); [|apply H2]. destruct (_ && _); [apply H2|]. rewrite tree_put_other by congruence. apply H2.
      + intros Hn. rewrite hints_set_tree, Hn, H2. exact Hn. }
  unfold gc_record. fold b D h oldp.
  destruct (tree_get_slot b h) as [s|] eqn:Es.
  - destruct (pos_eqb oldp (s_pos s)) eqn:Ep.
    + cbn [negb]. apply Hcopy.
    + destruct (get_collision_gc b h (d_key r)) as [[[it ck]|] []]; try (cbn [negb]; apply Hdrop).
      * destruct (pos_eqb (mkPos ck (hi_off it)) oldp); cbn [negb]; [apply Hcopy|apply Hdrop].
      * cbn [negb]. apply Hcopy.
  - destruct (Nat.ltb 0 begin_ && (d_ver r <? 0)%Z); cbn [negb]; [apply Hcopy|apply Hdrop].
Qed.

(* ... and where a relocated slot points afterwards *)
Lemma gc_record_slot cf hf begin_ src st off r :
  let st' := gc_record cf hf begin_ src st (off, r) in let h := hf (d_key r) in
  forall s, tree_get_slot (gc_b st) h = Some s ->
    tree_get_slot (gc_b st') h = Some s \/
    (s_pos s = mkPos src off /\
     tree_get_slot (gc_b st') h = Some (mkSlot (mkPos (gc_dst st') (k_whead (chunk_at (gc_b st') (gc_dst st')) - dsize r)) (s_ver s) (s_vh s))).
Proof.
  cbv zeta. set (b := gc_b st). set (D := gc_dst st). set (h := hf (d_key r)). set (oldp := mkPos src off). intros s Hs.
  assert (Hcopy : forall gs' vh (s0 : slot),
     let st' := (let '(b1, dst) := if c_filemax cf <? dsize r + k_whead (chunk_at b D)
                           then (begin_gc_writing (trydump (end_gc_writing b D) D true) (S D) src, S D) else (b, D) in
         let '(b2, noff) := append_gc b1 dst r in
         let b3 := match Some s0 with
                   | Some _ => match tree_get_slot b2 h with
                               | Some s => if gc_repoint_conditional && negb (pos_eqb (s_pos s) oldp) then b2
                                           else tree_put b2 h (mkSlot (mkPos dst noff) (s_ver s) (s_vh s))
                               | None => b2 end
                   | None => b2 end in
         mkGC (hints_set cf b3 h (d_key r) (d_ver r) vh (mkPos dst noff) (dsize r) true) dst gs') in
     tree_get_slot (gc_b st') h = Some s \/
     (s_pos s = oldp /\ tree_get_slot (gc_b st') h = Some (mkSlot (mkPos (gc_dst st') (k_whead (chunk_at (gc_b st') (gc_dst st')) - dsize r)) (s_ver s) (s_vh s)))).
  { intros gs' vh s0. cbv zeta. pose proof (dsize_pos r) as Hsz.
    assert (Hb1 : forall h', tree_get_slot (begin_gc_writing (trydump (end_gc_writing b D) D true) (S D) src) h' = tree_get_slot b h').
    { intros h'. rewrite begin_gc_eq, end_gc_eq. change (tree_get_slot (set_chunk ?x ?c ?k) h') with (tree_get_slot x h').
      rewrite (core_tree _ _ h' (trydump_core _ D true)). reflexivity. }
    change gc_repoint_conditional with true. cbn [andb].
    destruct (c_filemax cf <? dsize r + k_whead (chunk_at b D)); rewrite append_gc_eq; cbn [gc_b gc_dst]; rewrite hints_set_tree, hints_set_chunks.
    - set (b1 := begin_gc_writing (trydump (end_gc_writing b D) D true) (S D) src) in *.
      change (tree_get_slot (set_chunk b1 (S D) (append_gc_chunk (chunk_at b1 (S D)) r)) h) with (tree_get_slot b1 h). rewrite Hb1, Hs.
      destruct (pos_eqb (s_pos s) oldp) eqn:Ep; cbn [negb].
      + right. apply pos_eqb_eq in Ep. split; [exact Ep|]. rewrite tree_put_same. change (chunk_at (tree_put ?x h ?y) ?c) with (chunk_at x c).
        rewrite chunk_at_set_same. unfold append_gc_chunk at 1. cbn [k_whead]. do 3 f_equal. lia.
      + left. change (tree_get_slot (set_chunk b1 (S D) (append_gc_chunk (chunk_at b1 (S D)) r)) h) with (tree_get_slot b1 h). now rewrite Hb1.
    - change (tree_get_slot (set_chunk b D (append_gc_chunk (chunk_at b D) r)) h) with (tree_get_slot b h). rewrite Hs.
      destruct (pos_eqb (s_pos s) oldp) eqn:Ep; cbn [negb].
      + right. apply pos_eqb_eq in Ep. split; [exact Ep|]. rewrite tree_put_same. change (chunk_at (tree_put ?x h ?y) ?c) with (chunk_at x c).
        rewrite chunk_at_set_same. unfold append_gc_chunk at 1. cbn [k_whead]. do 3 f_equal. lia.
      + left. change (tree_get_slot (set_chunk b D (append_gc_chunk (chunk_at b D) r)) h) with (tree_get_slot b h). exact Hs. }
  unfold gc_record. fold b D h oldp. destruct (tree_get_slot b h) as [s1|] eqn:Es; [|discriminate]. injection Hs as ->.
  destruct (pos_eqb oldp (s_pos s)) eqn:Ep.
  - cbn [negb]. apply (Hcopy _ _ s).
  - destruct (get_collision_gc b h (d_key r)) as [[[it ck]|] []]; try (cbn [negb]; left; exact Es).
    + destruct (pos_eqb (mkPos ck (hi_off it)) oldp); cbn [negb]; [apply (Hcopy _ _ s)|left; exact Es].
    + cbn [negb]. apply (Hcopy _ _ s).
Qed.

(* ---- offset order of the written part of a destination ---- *)
Definition below (k : chunk) : list (N * drec) := filter (fun e => rend e <=? k_whead k) (k_disk k).

Lemma spaced_snoc l x : spaced l -> Forall (fun e => rend e <= fst x) l -> spaced (l ++ [x]).
Proof.
  unfold spaced. induction l as [|a l IH]; intros Hs Hf; cbn [app]; [constructor; [constructor|constructor]|].
  inversion Hs as [|? ? Hs' Ha]; subst. inversion Hf as [|? ? Hfa Hf']; subst. constructor; [now apply IH|].
  apply Forall_app. split; [exact Ha|]. constructor; [|constructor]. unfold rend in Hfa. exact Hfa.
Qed.

Lemma filter_nil_all {A} (f : A -> bool) l : (forall x, In x l -> f x = false) -> filter f l = [].
Proof. induction l as [|a l IH]; intros H; cbn [filter]; [reflexivity|]. rewrite (H a) by now left. apply IH. intros x Hx. apply H. now right. Qed.

Lemma filter_id_all {A} (f : A -> bool) l : (forall x, In x l -> f x = true) -> filter f l = l.
Proof. induction l as [|a l IH]; intros H; cbn [filter]; [reflexivity|]. rewrite (H a) by now left. f_equal. apply IH. intros x Hx. apply H. now right. Qed.

Lemma filter_filter_ext {A} (f g h : A -> bool) l : (forall x, In x l -> f x && g x = h x) -> filter f (filter g l) = filter h l.
Proof.
  induction l as [|a l IH]; intros H; cbn [filter]; [reflexivity|]. pose proof (H a (or_introl eq_refl)) as Ha.
  assert (IH' : filter f (filter g l) = filter h l) by (apply IH; intros x Hx; apply H; now right).
  destruct (g a) eqn:Eg; cbn [filter]; [destruct (f a) eqn:Ef; cbn [andb] in Ha; rewrite <- Ha; [now f_equal|exact IH']|].
  rewrite andb_false_r in Ha. rewrite <- Ha. exact IH'.
Qed.

Lemma below_append k r : nostraddle k -> below (append_gc_chunk k r) = below k ++ [(k_whead k, r)].
Proof.
  intros Hns. unfold below, append_gc_chunk. cbn [k_disk k_whead]. rewrite filter_app. cbn [filter]. unfold rend at 2. cbn [fst snd].
  replace (k_whead k + dsize r <=? k_whead k + dsize r) with true by (symmetry; apply N.leb_le; lia). f_equal.
  apply filter_filter_ext. intros e He. unfold nostraddle in Hns. rewrite Forall_forall in Hns. specialize (Hns e He).
  pose proof (dsize_pos r). pose proof (dsize_pos (snd e)). unfold rend in *. lia.
Qed.

Lemma below_forall k : Forall (fun e => rend e <= k_whead k) (below k).
Proof. apply Forall_forall. intros e He. unfold below in He. apply filter_In in He as [_ He]. lia. Qed.

Lemma end_gc_disk k : gchunk k -> nostraddle k -> (k_rewriting k = true \/ k_whead k = k_size k) -> k_disk (end_gc_chunk k) = below k.
Proof.
  intros (Hw & He & Hnd & Hsz) Hns Hc. unfold end_gc_chunk, below. destruct (k_rewriting k && (k_whead k <? k_size k)) eqn:E; cbn [k_disk].
  - apply filter_ext_in. intros e Hin. unfold nostraddle in Hns. rewrite Forall_forall in Hns. specialize (Hns e Hin).
    pose proof (dsize_pos (snd e)). unfold rend in *. lia.
  - symmetry. apply filter_id_all. intros e Hin. rewrite Forall_forall in Hsz. specialize (Hsz e Hin). cbv beta in Hsz. apply N.leb_le.
    assert (Hq : k_whead k = k_size k \/ k_whead k <> k_size k) by lia. destruct Hq as [Hq|Hq]; [lia|].
    destruct Hc as [Hr|Hq']; [|lia]. rewrite Hr in E. cbn [andb] in E. apply N.ltb_ge in E. lia.
Qed.

(* ================================================================ C18: what the pass leaves in the files it writes *)
Section GV2b.
Variable cf : cfg.
Variable hf : bytes -> N.
Variable K : list bytes.
Hypothesis hf_inj : forall k1 k2, In k1 K -> In k2 K -> hf k1 = hf k2 -> k1 = k2.
Hypothesis cap_pos : 0 < c_splitcap cf.
Variable b0 : bucket.
Variable begin_ : nat.
Variable dst0 : nat.      (* destination chosen when the pass starts *)
Variable W0 : N.          (* its writing head at that moment *)

(* records written by this pass: in the destinations used so far, above the starting point, below the writing head *)
Definition in_region (D : nat) (W : N) (c : nat) (e : N * drec) : Prop :=
  (dst0 <= c <= D)%nat /\ (c = dst0 -> W0 <= fst e) /\ (c = D -> rend e <= W).

(* such a record is the current record of its key, or a tombstone of a key the tree has forgotten *)
Definition cur_or_tomb (b : bucket) (c : nat) (e : N * drec) : Prop :=
  (exists s, tree_get_slot b (hf (d_key (snd e))) = Some s /\ s_pos s = mkPos c (fst e)) \/
  (tree_get_slot b (hf (d_key (snd e))) = None /\ (d_ver (snd e) < 0)%Z /\ (0 < begin_)%nat).

Definition GC2 (st : gcst) : Prop :=
  forall c e, In e (k_disk (chunk_at (gc_b st) c)) ->
              in_region (gc_dst st) (k_whead (chunk_at (gc_b st) (gc_dst st))) c e -> cur_or_tomb (gc_b st) c e.

Lemma gc2_frame b' D stat' st : gc_dst st = D -> core b' = core (gc_b st) -> GC2 st -> GC2 (mkGC b' D stat').
Proof.
  intros HD Hcore H c e Hin Hr. cbn [gc_b gc_dst] in *. subst D.
  rewrite (core_chunk_at _ _ c Hcore) in Hin. rewrite (core_chunk_at _ _ (gc_dst st) Hcore) in Hr.
  destruct (H c e Hin Hr) as [(s & Hs & Hp)|[Hn Hv]]; [left; exists s|right]; rewrite (core_tree _ _ _ Hcore); auto.
Qed.

Lemma gc2_switch st src off r R' :
  GI cf hf K b0 st src ((off, r) :: R') -> GX b0 st -> GC2 st ->
  c_filemax cf < dsize r + k_whead (chunk_at (gc_b st) (gc_dst st)) ->
  let D := gc_dst st in
  GC2 (mkGC (begin_gc_writing (trydump (end_gc_writing (gc_b st) D) D true) (S D) src) (S D) (gc_stat st)).
Proof.
  intros HG [X1 _] H2 Hfull. cbv zeta. pose proof HG as (_ & _ & _ & G4 & G5 & G6 & G7 & G8 & _). cbv zeta in G4, G5, G6, G7, G8, X1.
  destruct (gi_switch cf hf K cap_pos b0 st src off r R' HG Hfull) as (_ & HW0 & Htr). cbv zeta in HW0, Htr.
  set (b := gc_b st) in *. set (D := gc_dst st) in *.
  assert (HDlt : (D < b_head b0)%nat) by lia.
  destruct (end_gc_chunk_facts (chunk_at b D) (G4 D HDlt) G7 G8) as (_ & _ & _ & E4 & E5 & _). cbv zeta in E4, E5.
  destruct (E5 X1) as [E5a _].
  rewrite end_gc_eq, begin_gc_eq in *.
  set (b1 := set_chunk b D (end_gc_chunk (chunk_at b D))) in *.
  pose proof (trydump_core b1 D true) as Hcore. set (b2 := trydump b1 D true) in *.
  set (b3 := set_chunk b2 (S D) (begin_gc_chunk (chunk_at b2 (S D)) (Nat.eqb (S D) src))) in *.
  intros c e Hin Hr. cbn [gc_b gc_dst] in *. rewrite HW0 in Hr. destruct Hr as (Hr1 & Hr2 & Hr3).
  assert (Hc : c <> S D) by (intros E; specialize (Hr3 E); unfold rend in Hr3; pose proof (dsize_pos (snd e)); lia).
  assert (Hin1 : In e (k_disk (chunk_at b1 c))).
  { unfold b3 in Hin. rewrite chunk_at_set_other in Hin by congruence. now rewrite (core_chunk_at b2 b1 c Hcore) in Hin. }
  assert (Hold : In e (k_disk (chunk_at b c)) /\ in_region D (k_whead (chunk_at b D)) c e).
  { unfold b1 in Hin1. destruct (Nat.eq_dec D c) as [<-|Hne].
    - rewrite chunk_at_set_same in Hin1. split; [now apply E4|]. split; [lia|]. split; [exact Hr2|]. intros _.
      rewrite Forall_forall in E5a. specialize (E5a e Hin1). now rewrite (proj2 (proj2 (proj2 (proj2 (proj2 (end_gc_chunk_facts (chunk_at b D) (G4 D HDlt) G7 G8)))))) in E5a.
    - rewrite chunk_at_set_other in Hin1 by exact Hne. split; [exact Hin1|]. split; [lia|]. split; [exact Hr2|]. intros E. congruence. }
  destruct (H2 c e (proj1 Hold) (proj2 Hold)) as [(s & Hs & Hp)|[Hn Hv]]; [left; exists s|right]; rewrite Htr; auto.
Qed.
Lemma gc2_append st src off r R' gs' vh :
  GI cf hf K b0 st src ((off, r) :: R') -> GC2 st ->
  let b := gc_b st in let D := gc_dst st in let W := k_whead (chunk_at b D) in let h := hf (d_key r) in
  (forall s, tree_get_slot b h = Some s -> s_pos s = mkPos src off) ->
  (tree_get_slot b h = None -> (d_ver r < 0)%Z /\ (0 < begin_)%nat) ->
  let b2 := fst (append_gc b D r) in
  let b3 := match tree_get_slot b h with Some s => tree_put b2 h (mkSlot (mkPos D W) (s_ver s) (s_vh s)) | None => b2 end in
  GC2 (mkGC (hints_set cf b3 h (d_key r) (d_ver r) vh (mkPos D W) (dsize r) true) D gs').
Proof.
  intros HG H2. pose proof HG as (G1 & G2 & G3 & G4 & G5 & G6 & G7 & G8 & G9 & G10 & G11 & G12 & G13 & G14 & G15 & G16). cbv zeta in *.
  set (b := gc_b st) in *. set (D := gc_dst st) in *. set (kd := chunk_at b D) in *. set (W := k_whead kd) in *. set (h := hf (d_key r)).
  intros Hslot Htomb. pose proof (dsize_pos r) as Hsz.
  assert (HDlt : (D < b_head b0)%nat) by lia.
  destruct (append_gc_chunk_facts kd r (G4 D HDlt) G7) as (F1 & F2 & F3 & F4 & F5 & F6 & F7 & F8). cbv zeta in F1, F2, F3, F4, F5, F6, F7, F8.
  rewrite append_gc_eq. cbn [fst]. fold kd.
  set (b2 := set_chunk b D (append_gc_chunk kd r)).
  set (b3 := match tree_get_slot b h with Some s => tree_put b2 h (mkSlot (mkPos D W) (s_ver s) (s_vh s)) | None => b2 end).
  assert (Hct3 : b_ctab b3 = []) by (unfold b3; destruct (tree_get_slot b h); exact G2).
  unfold hints_set. replace (ct_has_hash (b_ctab b3) h) with false by (now rewrite Hct3).
  set (it := mkHI h 0 (p_off (mkPos D W)) (d_ver r) vh (d_key r)).
  pose proof (hints_set_item_core cf b3 it (p_chunk (mkPos D W)) (dsize r)) as Hcore.
  set (b4 := hints_set_item cf b3 it (p_chunk (mkPos D W)) (dsize r)) in *.
  assert (Hch4 : forall c, chunk_at b4 c = if Nat.eqb c D then append_gc_chunk kd r else chunk_at b c).
  { intros c. rewrite (core_chunk_at b4 b3 c Hcore). assert (E : chunk_at b3 c = chunk_at b2 c) by (unfold b3; destruct (tree_get_slot b h); reflexivity).
    rewrite E. unfold b2. destruct (Nat.eqb_spec c D) as [->|Hne]; [apply chunk_at_set_same|]. apply chunk_at_set_other. congruence. }
  assert (Htree4 : forall h', tree_get_slot b4 h' = if N.eqb h' h then match tree_get_slot b h with Some s => Some (mkSlot (mkPos D W) (s_ver s) (s_vh s)) | None => None end
                                                else tree_get_slot b h').
  { intros h'. rewrite (core_tree b4 b3 h' Hcore). unfold b3. destruct (N.eqb_spec h' h) as [->|Hne].
    - destruct (tree_get_slot b h) as [s|] eqn:Es; [apply tree_put_same|]. change (tree_get_slot b2 h) with (tree_get_slot b h). exact Es.
    - destruct (tree_get_slot b h); [rewrite tree_put_other by congruence|]; reflexivity. }
  intros c e Hin Hr. cbn [gc_b gc_dst] in *. rewrite Hch4, Nat.eqb_refl, F3 in Hr. rewrite Hch4 in Hin. destruct Hr as (Hr1 & Hr2 & Hr3).
  unfold cur_or_tomb. rewrite Htree4.
  (* is it the record just written? *)
  destruct (Nat.eqb_spec c D) as [Ec|Hnc].
  - destruct e as [o r0]. destruct (N.eq_dec o W) as [Eo|Hno].
    + (* the record just written (offsets are unique) *)
      subst o. assert (r0 = r).
      { destruct F1 as (_ & _ & Fnd & _). pose proof (find_off_in_nodup _ W r0 Fnd Hin) as Hf. unfold W in Hf. rewrite F4 in Hf. now injection Hf. }
      subst r0. cbn [fst snd]. fold h. rewrite N.eqb_refl. destruct (tree_get_slot b h) as [s|] eqn:Es.
      * left. eexists. split; [reflexivity|]. cbn [s_pos]. now rewrite Ec.
      * right. split; [reflexivity|now apply Htomb].
    + (* an older record of the destination that is still in the written region *)
      destruct (F6 o r0 Hin) as [E|Hold]; [injection E as E1 E2; exfalso; apply Hno; exact E1|].
      assert (Hend : rend (o, r0) <= W).
      { specialize (Hr3 Ec). unfold nostraddle in G7. rewrite Forall_forall in G7. destruct (G7 _ Hold) as [Hle|Hge]; [exact Hle|].
        exfalso. assert (Hnd : In (o, r0) (k_disk (append_gc_chunk kd r))) by exact Hin.
        unfold append_gc_chunk in Hnd. cbn [k_disk] in Hnd. apply in_app_or in Hnd as [Hf|[E|[]]].
        - apply filter_In in Hf as [_ Hf]. cbn [fst snd] in Hf. fold W in Hf. unfold rend in *. cbn [fst snd] in *. pose proof (dsize_pos r0). lia.
        - injection E as E1 E2. exfalso. apply Hno. symmetry. exact E1. }
      assert (Hreg : in_region D W c (o, r0)) by (split; [exact Hr1|split; [exact Hr2|intros _; exact Hend]]).
      rewrite Ec in Hreg |- *.
      destruct (H2 D (o, r0) Hold Hreg) as [(s & Hs & Hp)|[Hn Hv]]; cbn [fst snd] in *.
      * destruct (N.eqb_spec (hf (d_key r0)) h) as [Eh|Hne]; [|left; exists s; auto].
        exfalso. rewrite Eh in Hs. specialize (Hslot s Hs). rewrite Hp in Hslot. injection Hslot as E1 E2.
        subst o. unfold rend in Hend. cbn [fst snd] in Hend. pose proof (dsize_pos r0).
        pose proof (G11 E1 (off, r) (or_introl eq_refl)) as Hw. cbn [fst] in Hw. fold W in Hw. lia.
      * destruct (N.eqb_spec (hf (d_key r0)) h) as [Eh|Hne]; [|right; auto].
        rewrite Eh in Hn. fold b in Hn. rewrite Hn. right. auto.
  - (* another chunk: untouched, the tree changed only at h *)
    assert (Hreg : in_region D W c e) by (split; [exact Hr1|split; [exact Hr2|intros E; congruence]]).
    destruct (H2 c e Hin Hreg) as [(s & Hs & Hp)|[Hn Hv]].
    + destruct (N.eqb_spec (hf (d_key (snd e))) h) as [Eh|Hne]; [|left; exists s; auto].
      exfalso. rewrite Eh in Hs. specialize (Hslot s Hs). rewrite Hp in Hslot. injection Hslot as E1 E2. lia.
    + destruct (N.eqb_spec (hf (d_key (snd e))) h) as [Eh|Hne]; [|right; auto].
      rewrite Eh in Hn. fold b in Hn. rewrite Hn. right. auto.
Qed.
Lemma gc2_record st src e R' : GI cf hf K b0 st src (e :: R') -> GX b0 st -> GC2 st -> GC2 (gc_record cf hf begin_ src st e).
Proof.
  intros HG HX H2. destruct e as [off r]. pose proof HG as (G1 & G2 & G3 & G4 & G5 & G6 & G7 & G8 & G9 & G10 & G11 & G12 & G13 & G14 & G15 & G16).
  cbv zeta in G1, G2, G3, G4, G5, G6, G7, G8, G9, G10, G11, G12, G13, G14, G15, G16.
  set (b := gc_b st) in *. set (D := gc_dst st) in *. set (h := hf (d_key r)). set (oldp := mkPos src off).
  assert (Hin_e : In (off, r) (k_disk (chunk_at b src))) by (apply G10; now left).
  destruct (G13 src (off, r) G6 Hin_e) as [Hfm_e Hk_e]. cbn [snd] in Hk_e. unfold rend in Hfm_e. cbn [fst snd] in Hfm_e.
  assert (Hcopy : forall gs' vh, (forall s, tree_get_slot b h = Some s -> s_pos s = oldp) -> (tree_get_slot b h = None -> (d_ver r < 0)%Z /\ (0 < begin_)%nat) ->
     GC2 (let '(b1, dst) := if c_filemax cf <? dsize r + k_whead (chunk_at b D)
                           then (begin_gc_writing (trydump (end_gc_writing b D) D true) (S D) src, S D) else (b, D) in
         let '(b2, noff) := append_gc b1 dst r in
         let b3 := match tree_get_slot b h with
                   | Some _ => match tree_get_slot b2 h with
                               | Some s => if gc_repoint_conditional && negb (pos_eqb (s_pos s) oldp) then b2
                                           else tree_put b2 h (mkSlot (mkPos dst noff) (s_ver s) (s_vh s))
                               | None => b2 end
                   | None => b2 end in
         mkGC (hints_set cf b3 h (d_key r) (d_ver r) vh (mkPos dst noff) (dsize r) true) dst gs')).
  { intros gs' vh Hslot Htomb. destruct (c_filemax cf <? dsize r + k_whead (chunk_at b D)) eqn:Efull.
    - destruct (gi_switch cf hf K cap_pos b0 st src off r R' HG ltac:(fold b D; lia)) as (HS & HW0 & Htr). cbv zeta in HS, HW0, Htr. fold b D in HS, HW0, Htr.
      pose proof (gc2_switch st src off r R' HG HX H2 ltac:(fold b D; lia)) as H2S. cbv zeta in H2S. fold b D in H2S.
      set (b1 := begin_gc_writing (trydump (end_gc_writing b D) D true) (S D) src) in *.
      pose proof (gc2_append (mkGC b1 (S D) (gc_stat st)) src off r R' gs' vh HS H2S) as HA. cbv zeta in HA. cbn [gc_b gc_dst] in HA.
      rewrite append_gc_eq. rewrite append_gc_eq in HA. cbn [fst] in HA. rewrite HW0 in *.
      change (tree_get_slot (set_chunk b1 (S D) (append_gc_chunk (chunk_at b1 (S D)) r)) h) with (tree_get_slot b1 h). rewrite !Htr in *.
      fold h in HA. destruct (tree_get_slot b h) as [s|] eqn:Es.
      + rewrite (Hslot s eq_refl). replace (pos_eqb oldp oldp) with true by (symmetry; now apply pos_eqb_eq). rewrite andb_false_r. cbn [negb].
        apply HA; [intros s' Hs'; injection Hs' as <-; now apply Hslot|discriminate].
      + apply HA; [intros s' Hs'; discriminate|intros _; now apply Htomb].
    - pose proof (gc2_append st src off r R' gs' vh HG H2) as HA. cbv zeta in HA. fold b D in HA.
      rewrite append_gc_eq. rewrite append_gc_eq in HA. cbn [fst] in HA.
      change (tree_get_slot (set_chunk b D (append_gc_chunk (chunk_at b D) r)) h) with (tree_get_slot b h).
      fold h in HA. destruct (tree_get_slot b h) as [s|] eqn:Es.
      + rewrite (Hslot s eq_refl). replace (pos_eqb oldp oldp) with true by (symmetry; now apply pos_eqb_eq). rewrite andb_false_r. cbn [negb].
        apply HA; [intros s' Hs'; injection Hs' as <-; now apply Hslot|discriminate].
      + apply HA; [intros s' Hs'; discriminate|intros _; now apply Htomb]. }
  assert (Hdrop : forall gs', GC2 (mkGC b D gs')) by (intros gs'; apply (gc2_frame b D gs' st eq_refl eq_refl H2)).
  unfold gc_record. fold b D h oldp.
  destruct (tree_get_slot b h) as [s|] eqn:Es.
  - destruct (pos_eqb oldp (s_pos s)) eqn:Ep.
    + cbn [negb]. apply pos_eqb_eq in Ep. apply Hcopy; [intros s' Hs'; injection Hs' as <-; now symmetry|discriminate].
    + pose proof (no_collision hf K hf_inj b h (d_key r) G14 G2 Hk_e eq_refl) as Hnc.
      destruct (get_collision_gc b h (d_key r)) as [x c]. cbn [snd] in Hnc. subst c.
      destruct x as [[it ck]|]; cbn [negb]; apply Hdrop.
  - destruct (Nat.ltb 0 begin_ && (d_ver r <? 0)%Z) eqn:En; cbn [negb]; [|apply Hdrop].
    apply Hcopy; [intros s' Hs'; discriminate|]. intros _. apply andb_prop in En as [En0 En]. apply Nat.ltb_lt in En0. split; [lia|exact En0].
Qed.

Lemma gc_records_all src : forall recs st, GI cf hf K b0 st src recs -> GX b0 st -> GC2 st ->
  GI cf hf K b0 (fold_left (gc_record cf hf begin_ src) recs st) src [] /\ GX b0 (fold_left (gc_record cf hf begin_ src) recs st) /\
  GC2 (fold_left (gc_record cf hf begin_ src) recs st).
Proof.
  induction recs as [|e recs IH]; intros st HG HX H2; cbn [fold_left]; [split; [|split]; assumption|].
  apply IH; [now apply (gc_record_inv cf hf K hf_inj cap_pos b0 begin_ st src e recs)|now apply (gx_record cf hf K cap_pos b0 begin_ st src e recs)|now apply (gc2_record st src e recs)].
Qed.

(* ---- the part of the first destination that was there before the pass ---- *)
Definition GP (st : gcst) : Prop :=
  (dst0 <= gc_dst st)%nat /\ (gc_dst st = dst0 -> W0 <= k_whead (chunk_at (gc_b st) dst0)) /\
  (forall e, rend e <= W0 -> (In e (k_disk (chunk_at (gc_b st) dst0)) <-> In e (k_disk (chunk_at b0 dst0)))) /\
  (forall e, In e (k_disk (chunk_at (gc_b st) dst0)) -> rend e <= W0 \/ W0 <= fst e).

Lemma gp_frame b' D stat' st : gc_dst st = D -> (forall c, chunk_at b' c = chunk_at (gc_b st) c) -> GP st -> GP (mkGC b' D stat').
Proof. intros <- Hc (P1 & P2 & P3 & P4). unfold GP. cbn [gc_b gc_dst]. rewrite Hc. auto. Qed.

Lemma gp_record st src e R' : GI cf hf K b0 st src (e :: R') -> GP st -> GP (gc_record cf hf begin_ src st e).
Proof.
  intros HG (P1 & P2 & P3 & P4). pose proof HG as (G1 & G2 & G3 & G4 & G5 & G6 & G7 & G8 & _). cbv zeta in G1, G2, G3, G4, G5, G6, G7, G8.
  set (b := gc_b st) in *. set (D := gc_dst st) in *.
  assert (HDlt : (D < b_head b0)%nat) by lia.
  pose proof (gc_record_shape cf hf begin_ src st e) as Hsh. cbv zeta in Hsh. set (st' := gc_record cf hf begin_ src st e) in *.
  destruct Hsh as [[S1 S2]|[[S1 S2]|(S0 & S1 & S2)]]; unfold GP; rewrite S1, S2; fold b D.
  - auto.
  - destruct (Nat.eqb_spec dst0 D) as [E|Hne]; [|split; [exact P1|split; [intros E; congruence|split; [exact P3|exact P4]]]].
    destruct (append_gc_chunk_facts (chunk_at b D) (snd e) (G4 D HDlt) G7) as (F1 & F2 & F3 & F4 & F5 & F6 & F7 & F8). cbv zeta in F1, F2, F3, F4, F5, F6, F7, F8.
    specialize (P2 (eq_sym E)). rewrite E in P2. pose proof (dsize_pos (snd e)) as Hsz.
    split; [exact P1|]. split; [intros _; rewrite F3; lia|]. split.
    + intros x Hx. rewrite <- (P3 x Hx). rewrite E. destruct x as [o r0]. split.
      * intros Hin. destruct (F6 o r0 Hin) as [Eq|Hold]; [|exact Hold]. injection Eq as -> ->. unfold rend in Hx. cbn [fst snd] in Hx. lia.
      * intros Hin. apply F5; [exact Hin|]. left. unfold rend in Hx. cbn [fst snd] in Hx. lia.
    + intros [o r0] Hin. destruct (F6 o r0 Hin) as [Eq|Hold]; [injection Eq as -> ->; right; cbn [fst]; exact P2|]. apply P4. now rewrite E.
  - cbv zeta in S0, S2. fold b D in S0. replace (Nat.eqb dst0 (S D)) with false by (symmetry; apply Nat.eqb_neq; lia).
    split; [lia|]. split; [intros E; lia|].
    destruct (Nat.eqb_spec dst0 D) as [E|Hne]; [|split; [exact P3|exact P4]].
    destruct (end_gc_chunk_facts (chunk_at b D) (G4 D HDlt) G7 G8) as (_ & _ & E3 & E4 & _). cbv zeta in E3, E4.
    specialize (P2 (eq_sym E)). rewrite E in P2. split.
    + intros x Hx. rewrite <- (P3 x Hx). rewrite E. split; [apply E4|].
      destruct x as [o r0]. intros Hin. apply E3; [exact Hin|]. unfold rend in Hx. cbn [fst snd] in Hx. lia.
    + intros x Hin. apply P4. rewrite E. now apply E4.
Qed.

(* ---- the files written so far are in offset order ---- *)
Definition GS (st : gcst) : Prop :=
  (forall c, (dst0 <= c < gc_dst st)%nat -> spaced (k_disk (chunk_at (gc_b st) c))) /\ spaced (below (chunk_at (gc_b st) (gc_dst st))).

Lemma gs_frame b' D stat' st : gc_dst st = D -> (forall c, chunk_at b' c = chunk_at (gc_b st) c) -> GS st -> GS (mkGC b' D stat').
Proof. intros <- Hc (S1 & S2). unfold GS. cbn [gc_b gc_dst]. rewrite Hc. split; [intros c H; rewrite Hc; auto|exact S2]. Qed.

Lemma gs_record st src e R' : GI cf hf K b0 st src (e :: R') -> GX b0 st -> GS st -> GS (gc_record cf hf begin_ src st e).
Proof.
  intros HG [X1 _] (S1 & S2). pose proof HG as (G1 & G2 & G3 & G4 & G5 & G6 & G7 & G8 & G9 & _). cbv zeta in G1, G2, G3, G4, G5, G6, G7, G8, G9, X1.
  set (b := gc_b st) in *. set (D := gc_dst st) in *.
  assert (HDlt : (D < b_head b0)%nat) by lia.
  pose proof (gc_record_shape cf hf begin_ src st e) as Hsh. cbv zeta in Hsh. set (st' := gc_record cf hf begin_ src st e) in *.
  destruct Hsh as [[E1 E2]|[[E1 E2]|(E0 & E1 & E2)]]; unfold GS; rewrite E1; fold b D.
  - split; [intros c Hc; rewrite E2; auto|rewrite E2; exact S2].
  - split; [intros c Hc; rewrite E2; fold b D; replace (Nat.eqb c D) with false by (symmetry; apply Nat.eqb_neq; lia); auto|].
    rewrite E2. fold b D. rewrite Nat.eqb_refl, below_append by exact G7. apply spaced_snoc; [exact S2|]. cbn [fst]. apply below_forall.
  - cbv zeta in E0, E2. fold b D in E0, E2.
    destruct e as [off r]. cbn [snd] in *.
    destruct (gi_switch cf hf K cap_pos b0 st src off r R' HG ltac:(fold b D; lia)) as (HS & _ & _). cbv zeta in HS. fold b D in HS.
    destruct HS as (_ & _ & _ & _ & HS5 & _). cbv zeta in HS5. cbn [gc_b gc_dst] in HS5.
    split.
    + intros c Hc. rewrite E2. replace (Nat.eqb c (S D)) with false by (symmetry; apply Nat.eqb_neq; lia).
      destruct (Nat.eqb_spec c D) as [->|Hne]; [|apply S1; lia]. rewrite end_gc_disk; [exact S2|apply (G4 D HDlt)|exact G7|exact X1].
    + rewrite E2, Nat.eqb_refl.
      assert (HSlt : (S D < b_head b0)%nat) by lia.
      destruct (begin_gc_chunk_facts (chunk_at b (S D)) (Nat.eqb (S D) src) (G4 (S D) HSlt)) as (B1 & B2 & B3 & B4 & B5). cbv zeta in B1, B2, B3, B4, B5.
      rewrite below_append by exact B2.
      assert (Hb : below (begin_gc_chunk (chunk_at b (S D)) (Nat.eqb (S D) src)) = []).
      { unfold below. rewrite B3, B5. destruct (Nat.eqb_spec (S D) src) as [Es|Hns].
        - apply filter_nil_all. intros x _. pose proof (dsize_pos (snd x)). unfold rend. lia.
        - destruct (G9 (S D) ltac:(lia)) as [Hd _]. now rewrite Hd. }
      rewrite Hb. cbn [app]. repeat constructor.
Qed.

Lemma gs_clear st src stat' : (gc_dst st < src)%nat -> GS st -> GS (mkGC (clear_chunk (gc_b st) src) (gc_dst st) stat').
Proof.
  intros Hlt (S1 & S2). unfold GS. cbn [gc_b gc_dst]. unfold clear_chunk. split.
  - intros c Hc. rewrite chunk_at_set_other by lia. auto.
  - rewrite chunk_at_set_other by lia. exact S2.
Qed.

Definition GA (st : gcst) (src : nat) (R : list (N * drec)) : Prop := GI cf hf K b0 st src R /\ GX b0 st /\ GC2 st /\ GP st /\ GS st.

Lemma ga_records src : forall recs st, GA st src recs -> GA (fold_left (gc_record cf hf begin_ src) recs st) src [].
Proof.
  induction recs as [|e recs IH]; intros st HA; cbn [fold_left]; [exact HA|]. destruct HA as (HG & HX & H2 & HP & HS).
  apply IH. split; [now apply (gc_record_inv cf hf K hf_inj cap_pos b0 begin_ st src e recs)|].
  split; [now apply (gx_record cf hf K cap_pos b0 begin_ st src e recs)|]. split; [now apply (gc2_record st src e recs)|].
  split; [now apply (gp_record st src e recs)|now apply (gs_record st src e recs)].
Qed.

Lemma gc2_clear st src stat' : gc_dst st <> src -> GC2 st -> GC2 (mkGC (clear_chunk (gc_b st) src) (gc_dst st) stat').
Proof.
  intros Hne H2 c e Hin Hr. cbn [gc_b gc_dst] in *. unfold clear_chunk in Hin, Hr. rewrite chunk_at_set_other in Hr by congruence.
  destruct (Nat.eq_dec src c) as [<-|Hn]; [rewrite chunk_at_set_same in Hin; destruct Hin|]. rewrite chunk_at_set_other in Hin by exact Hn.
  exact (H2 c e Hin Hr).
Qed.

Lemma gp_clear st src stat' : (src <> dst0 \/ W0 = 0) -> GP st -> GP (mkGC (clear_chunk (gc_b st) src) (gc_dst st) stat').
Proof.
  intros Hs (P1 & P2 & P3 & P4). unfold GP. cbn [gc_b gc_dst]. unfold clear_chunk.
  destruct (Nat.eq_dec src dst0) as [E|Hne].
  - destruct Hs as [Hs|Hs]; [congruence|]. subst src. split; [exact P1|]. split; [intros _; lia|]. split.
    + intros e He. pose proof (dsize_pos (snd e)). unfold rend in He. lia.
    + intros e _. right. lia.
  - rewrite chunk_at_set_other by exact Hne. auto.
Qed.

Lemma ga_file_step st src : GA st src (k_disk (chunk_at (gc_b st) src)) -> (src <> dst0 \/ W0 = 0) ->
  let st' := gc_file cf hf begin_ st src in
  GA st' src [] /\ (gc_dst st' <> src -> k_disk (chunk_at (gc_b st') src) = [] /\ k_size (chunk_at (gc_b st') src) = 0).
Proof.
  intros (HG & HX & H2 & HP & HS) Hs. pose proof (gc_file_step cf hf K hf_inj cap_pos b0 begin_ st src HG HX) as (R1 & R2 & R3). cbv zeta in *.
  split; [|exact R3]. split; [exact R1|]. split; [exact R2|]. clear R1 R2 R3.
  unfold gc_file. destruct (k_size (chunk_at (gc_b st) src) =? 0) eqn:Ez; [split; [|split]; assumption|].
  set (b := gc_b st) in *. set (recs := k_disk (chunk_at b src)) in *.
  set (st1 := mkGC (clear_hint_chunk b src) (gc_dst st) (gc_stat st)).
  assert (HA1 : GA st1 src recs).
  { split; [|split; [|split; [|split]]].
    - apply (gi_frame cf hf K b0 (clear_hint_chunk b src) (gc_dst st) (gc_stat st) st src recs eq_refl); [reflexivity| |exact HG]. apply iok_clear. apply HG.
    - apply (gx_frame b0 (clear_hint_chunk b src) (gc_dst st) (gc_stat st) st eq_refl); [reflexivity|exact HX].
    - apply (gc2_frame (clear_hint_chunk b src) (gc_dst st) (gc_stat st) st eq_refl); [reflexivity|exact H2].
    - apply (gp_frame (clear_hint_chunk b src) (gc_dst st) (gc_stat st) st eq_refl); [reflexivity|exact HP].
    - apply (gs_frame (clear_hint_chunk b src) (gc_dst st) (gc_stat st) st eq_refl); [reflexivity|exact HS]. }
  destruct (ga_records src recs st1 HA1) as (HG2 & _ & H22 & HP2 & HS2).
  set (st2 := fold_left (gc_record cf hf begin_ src) recs st1) in *.
  change gc_truncates_after_inplace with false. cbn [andb].
  destruct (Nat.eqb_spec src (gc_dst st2)) as [E|Hne].
  - set (b4 := if Nat.leb (b_nextgc (gc_b st2)) (S src) then set_nextgc (gc_b st2) (S src) else gc_b st2).
    assert (Hc4 : core b4 = core (gc_b st2)) by (unfold b4; destruct (Nat.leb _ _); reflexivity).
    split; [apply (gc2_frame b4 (gc_dst st2) (gc_stat st2) st2 eq_refl Hc4 H22)|].
    split; [apply (gp_frame b4 (gc_dst st2) (gc_stat st2) st2 eq_refl); [intros c; apply (core_chunk_at _ _ c Hc4)|exact HP2]|].
    apply (gs_frame b4 (gc_dst st2) (gc_stat st2) st2 eq_refl); [intros c; apply (core_chunk_at _ _ c Hc4)|exact HS2].
  - set (b3 := clear_chunk (gc_b st2) src).
    set (b4 := if Nat.leb (b_nextgc b3) (S src) then set_nextgc b3 (S src) else b3).
    assert (Hc4 : core b4 = core b3) by (unfold b4; destruct (Nat.leb _ _); reflexivity).
    pose proof (gc2_clear st2 src (gc_stat st2) ltac:(congruence) H22) as H23. pose proof (gp_clear st2 src (gc_stat st2) Hs HP2) as HP3. fold b3 in H23, HP3.
    assert (HDs : (gc_dst st2 < src)%nat) by (destruct HG2 as (_ & _ & _ & _ & G5 & _); cbv zeta in G5; lia).
    pose proof (gs_clear st2 src (gc_stat st2) HDs HS2) as HS3. fold b3 in HS3.
    split; [apply (gc2_frame b4 (gc_dst st2) (gc_stat st2) (mkGC b3 (gc_dst st2) (gc_stat st2)) eq_refl Hc4 H23)|].
    split; [apply (gp_frame b4 (gc_dst st2) (gc_stat st2) (mkGC b3 (gc_dst st2) (gc_stat st2)) eq_refl); [intros c; apply (core_chunk_at _ _ c Hc4)|exact HP3]|].
    apply (gs_frame b4 (gc_dst st2) (gc_stat st2) (mkGC b3 (gc_dst st2) (gc_stat st2)) eq_refl); [intros c; apply (core_chunk_at _ _ c Hc4)|exact HS3].
Qed.

Lemma ga_files : forall n src st,
  GA st src (k_disk (chunk_at (gc_b st) src)) -> (src + n < b_head b0)%nat ->
  (forall c, (c < b_head b0)%nat -> spaced (k_disk (chunk_at b0 c))) -> ((dst0 < src)%nat \/ W0 = 0) ->
  let st' := fold_left (gc_file cf hf begin_) (seq src (S n)) st in
  GA st' (src + n)%nat [] /\
  (gc_dst st' <> (src + n)%nat -> k_disk (chunk_at (gc_b st') (src + n)) = [] /\ k_size (chunk_at (gc_b st') (src + n)) = 0).
Proof.
  induction n as [|n IH]; intros src st HA Hlt Hsp Hs; cbn [seq fold_left]; cbv zeta.
  - rewrite Nat.add_0_r. apply (ga_file_step st src HA). destruct Hs; [left; lia|now right].
  - destruct (ga_file_step st src HA ltac:(destruct Hs; [left; lia|now right])) as [(H1 & H2 & H3 & H4 & H4s) H5]. cbv zeta in H1, H2, H3, H4, H4s, H5.
    set (st1 := gc_file cf hf begin_ st src) in *.
    pose proof (gi_next cf hf K cap_pos b0 st1 src H1 H5 ltac:(lia) (Hsp (S src) ltac:(lia))) as HGn.
    replace (src + S n)%nat with (S src + n)%nat by lia.
    apply (IH (S src) st1); [split; [exact HGn|split; [exact H2|split; [exact H3|split; [exact H4|exact H4s]]]]|lia|exact Hsp|destruct Hs; [left; lia|now right]].
Qed.
End GV2b.

(* ================================================================ C18: a second pass releases nothing *)
Lemma gc_record_keeps cf hf begin_ src st off r :
  cur_or_tomb hf begin_ (gc_b st) src (off, r) ->
  let st' := gc_record cf hf begin_ src st (off, r) in
  g_released (gc_stat st') = g_released (gc_stat st) /\ g_size_released (gc_stat st') = g_size_released (gc_stat st).
Proof.
  intros Hc. cbv zeta. unfold gc_record. unfold cur_or_tomb in Hc. cbn [fst snd] in Hc.
  destruct Hc as [(s & Hs & Hp)|(Hn & Hv & Hb)].
  - rewrite Hs, Hp. replace (pos_eqb (mkPos src off) (mkPos src off)) with true by (symmetry; now apply pos_eqb_eq). cbn [negb].
    destruct (c_filemax cf <? _); destruct (append_gc _ _ r); split; reflexivity.
  - rewrite Hn. replace (Nat.ltb 0 begin_) with true by (symmetry; now apply Nat.ltb_lt). replace (d_ver r <? 0)%Z with true by (symmetry; apply Z.ltb_lt; exact Hv).
    cbn [andb negb]. destruct (c_filemax cf <? _); destruct (append_gc _ _ r); split; reflexivity.
Qed.

Section GV2c.
Variable cf : cfg.
Variable hf : bytes -> N.
Variable K : list bytes.
Hypothesis hf_inj : forall k1 k2, In k1 K -> In k2 K -> hf k1 = hf k2 -> k1 = k2.
Hypothesis cap_pos : 0 < c_splitcap cf.
Variable b0 : bucket.
Variable begin_ end_ : nat.

(* every record still to be processed is current, and nothing has been released so far *)
Definition GR (st : gcst) (src : nat) (R : list (N * drec)) : Prop :=
  (forall e, In e R -> cur_or_tomb hf begin_ (gc_b st) src e) /\
  (forall c e, (src < c <= end_)%nat -> In e (k_disk (chunk_at b0 c)) -> cur_or_tomb hf begin_ (gc_b st) c e) /\
  g_released (gc_stat st) = 0 /\ g_size_released (gc_stat st) = 0.

Lemma gr_frame b' D stat' st src R : gc_stat st = stat' -> (forall h, tree_get_slot b' h = tree_get_slot (gc_b st) h) -> GR st src R -> GR (mkGC b' D stat') src R.
Proof.
  intros <- Ht (R1 & R2 & R3 & R4). unfold GR, cur_or_tomb. cbn [gc_b gc_stat]. split; [|split; [|split; assumption]].
  - intros e He. rewrite Ht. exact (R1 e He).
  - intros c e Hc He. rewrite Ht. exact (R2 c e Hc He).
Qed.

Lemma gr_record st src e R' : GI cf hf K b0 st src (e :: R') -> GR st src (e :: R') -> GR (gc_record cf hf begin_ src st e) src R'.
Proof.
  intros HG (R1 & R2 & R3 & R4). pose proof HG as (_ & _ & _ & _ & _ & _ & _ & _ & _ & _ & _ & G12 & _). cbv zeta in G12.
  destruct e as [off r]. pose proof (R1 (off, r) (or_introl eq_refl)) as Hcur.
  destruct (gc_record_keeps cf hf begin_ src st off r Hcur) as [K1 K2]. cbv zeta in K1, K2.
  destruct (gc_record_tree cf hf begin_ src st (off, r)) as [T1 T2]. cbv zeta in T1, T2. cbn [snd] in T1, T2.
  set (st' := gc_record cf hf begin_ src st (off, r)) in *. set (h := hf (d_key r)) in *.
  assert (Hstep : forall c e', cur_or_tomb hf begin_ (gc_b st) c e' -> (c = src -> fst e' <> off) -> cur_or_tomb hf begin_ (gc_b st') c e').
  { intros c e' Hc' Hoff. unfold cur_or_tomb in *. cbn [fst snd] in Hcur.
    destruct (N.eq_dec (hf (d_key (snd e'))) h) as [Eh|Hne]; [|rewrite (T1 _ Hne); exact Hc'].
    rewrite Eh in *. fold h in Hcur. destruct Hcur as [(s & Hs & Hp)|(Hn & Hv & Hb)].
    - destruct Hc' as [(s' & Hs' & Hp')|(Hn' & _)]; [|congruence]. rewrite Hs in Hs'. injection Hs' as <-. rewrite Hp in Hp'. injection Hp' as E1 E2.
      exfalso. apply Hoff; congruence.
    - destruct Hc' as [(s' & Hs' & _)|(Hn' & Hv' & Hb')]; [congruence|]. right. split; [now apply T2|]. split; assumption. }
  split; [|split; [|split; congruence]].
  - intros e' He'. apply Hstep; [apply R1; now right|]. intros _.
    unfold spaced in G12. inversion G12 as [|? ? _ Hx]; subst. rewrite Forall_forall in Hx. specialize (Hx e' He'). cbn [fst snd] in Hx. pose proof (dsize_pos r). lia.
  - intros c e' Hc He'. apply Hstep; [now apply R2|]. intros E. lia.
Qed.

Lemma gr_records src : forall recs st, GI cf hf K b0 st src recs -> GR st src recs -> GR (fold_left (gc_record cf hf begin_ src) recs st) src [].
Proof.
  induction recs as [|e recs IH]; intros st HG HR; cbn [fold_left]; [exact HR|].
  apply IH; [now apply (gc_record_inv cf hf K hf_inj cap_pos b0 begin_ st src e recs)|now apply gr_record].
Qed.

Lemma gr_file_step st src : GI cf hf K b0 st src (k_disk (chunk_at (gc_b st) src)) -> GR st src (k_disk (chunk_at (gc_b st) src)) ->
  GR (gc_file cf hf begin_ st src) src [].
Proof.
  intros HG HR. unfold gc_file. destruct (k_size (chunk_at (gc_b st) src) =? 0) eqn:Ez.
  { destruct HR as (_ & R2 & R3 & R4). split; [intros e []|]. split; [exact R2|split; assumption]. }
  set (b := gc_b st) in *. set (recs := k_disk (chunk_at b src)) in *.
  set (st1 := mkGC (clear_hint_chunk b src) (gc_dst st) (gc_stat st)).
  assert (HG1 : GI cf hf K b0 st1 src recs).
  { apply (gi_frame cf hf K b0 (clear_hint_chunk b src) (gc_dst st) (gc_stat st) st src recs eq_refl); [reflexivity| |exact HG]. apply iok_clear. apply HG. }
  assert (HR1 : GR st1 src recs) by (apply (gr_frame (clear_hint_chunk b src) (gc_dst st) (gc_stat st) st src recs eq_refl); [reflexivity|exact HR]).
  pose proof (gr_records src recs st1 HG1 HR1) as HR2.
  set (st2 := fold_left (gc_record cf hf begin_ src) recs st1) in *.
  change gc_truncates_after_inplace with false. cbn [andb].
  destruct (Nat.eqb src (gc_dst st2)).
  - apply (gr_frame _ (gc_dst st2) (gc_stat st2) st2 src [] eq_refl); [|exact HR2]. intros h. destruct (Nat.leb _ _); reflexivity.
  - apply (gr_frame _ (gc_dst st2) (gc_stat st2) st2 src [] eq_refl); [|exact HR2]. intros h. destruct (Nat.leb _ _); reflexivity.
Qed.

Lemma gr_files : forall n src st,
  GI cf hf K b0 st src (k_disk (chunk_at (gc_b st) src)) -> GX b0 st -> GR st src (k_disk (chunk_at (gc_b st) src)) ->
  (src + n < b_head b0)%nat -> (src + n <= end_)%nat ->
  (forall c, (c < b_head b0)%nat -> spaced (k_disk (chunk_at b0 c))) ->
  GR (fold_left (gc_file cf hf begin_) (seq src (S n)) st) (src + n)%nat [].
Proof.
  induction n as [|n IH]; intros src st HG HX HR Hlt Hle Hsp; cbn [seq fold_left].
  - rewrite Nat.add_0_r. now apply gr_file_step.
  - destruct (gc_file_step cf hf K hf_inj cap_pos b0 begin_ st src HG HX) as (H1 & H2 & H3). cbv zeta in H1, H2, H3.
    pose proof (gr_file_step st src HG HR) as HR1.
    set (st1 := gc_file cf hf begin_ st src) in *.
    pose proof (gi_next cf hf K cap_pos b0 st1 src H1 H3 ltac:(lia) (Hsp (S src) ltac:(lia))) as HGn.
    replace (src + S n)%nat with (S src + n)%nat by lia.
    apply (IH (S src) st1 HGn H2); [|lia|lia|exact Hsp].
    destruct HR1 as (_ & R2 & R3 & R4). destruct H1 as (_ & _ & G3 & _). cbv zeta in G3.
    split; [|split; [|split; assumption]].
    + intros e He. rewrite G3 in He by (right; lia). apply R2; [lia|exact He].
    + intros c e Hc He. apply R2; [lia|exact He].
Qed.
End GV2c.

Lemma pick_dst_gap cf b begin_ : forall n, (n <= begin_)%nat ->
  (forall c, (n <= c < begin_)%nat -> k_size (chunk_at b c) = 0) ->
  let d := pick_dst cf b n begin_ in
  (d <= begin_)%nat /\ forall c, (d < c < begin_)%nat -> k_size (chunk_at b c) = 0.
Proof.
  induction n as [|i IH]; intros Hn Hgap; cbn [pick_dst]; cbv zeta.
  - split; [lia|]. intros c Hc. lia.
  - destruct (0 <? k_size (chunk_at b i)) eqn:Es.
    + destruct (Z.of_N (k_size (chunk_at b i)) <? Z.of_N (c_filemax cf) - Z.of_N (c_bodymax cf))%Z.
      * split; [lia|]. intros c Hc. apply Hgap. lia.
      * destruct (Nat.ltb i (begin_ - 1)) eqn:El.
        -- apply Nat.ltb_lt in El. split; [lia|]. intros c Hc. apply Hgap. lia.
        -- split; [lia|]. intros c Hc. lia.
    + apply IH; [lia|]. intros c Hc. destruct (Nat.eq_dec c i) as [->|Hne]; [lia|apply Hgap; lia].
Qed.

Lemma gchunk_size0' k : gchunk k -> k_size k = 0 -> k_disk k = [].
Proof.
  intros (_ & _ & _ & Hsz) H0s. destruct (k_disk k) as [|e l]; [reflexivity|]. inversion Hsz as [|? ? He _]; subst.
  unfold rend in He. pose proof (dsize_pos (snd e)). lia.
Qed.

Lemma chunk_ok_of_g' k : gchunk k -> Forall (fun e => rend e <= k_whead k) (k_disk k) -> chunk_ok k.
Proof.
  intros (Hw & He & _ & _) Hall. unfold chunk_ok, wstart. rewrite Hw. split; [|split; [intros o r0 []|split; [exact He|lia]]].
  intros o r0 Hin. rewrite Forall_forall in Hall. specialize (Hall _ Hin). unfold rend in Hall. cbn [fst snd] in Hall. pose proof (dsize_pos r0). lia.
Qed.

Section GV3.
Variable cf : cfg.
Variable hf : bytes -> N.
Variable K : list bytes.
Hypothesis hf_inj : forall k1 k2, In k1 K -> In k2 K -> hf k1 = hf k2 -> k1 = k2.
Hypothesis cap_pos : 0 < c_splitcap cf.

(* what a GC pass needs from the bucket it starts on (every state reached by client operations and restarts has it,
   provided no record extends past DataFileMax) *)
Definition GPre (b : bucket) : Prop :=
  (forall c, (c < b_head b)%nat -> gchunk (chunk_at b c) /\ spaced (k_disk (chunk_at b c))) /\
  (forall c e, (c < b_head b)%nat -> In e (k_disk (chunk_at b c)) -> rend e <= c_filemax cf /\ In (d_key (snd e)) K) /\
  IOK hf K b.

Theorem gc_pass_view b m begin_ end_ :
  Rel hf K b m -> GPre b -> (begin_ <= end_ < b_head b)%nat ->
  Rel hf K (fst (gc_pass cf hf b begin_ end_ false)) m.
Proof.
  intros HR (P2 & P3 & P4) Hrange. pose proof HR as [((Hok & Habove) & Hct & Hslots) Habs].
  unfold gc_pass. cbn [fst]. set (H0 := b_head b).
  set (b1 := before_bucket cf b false).
  assert (Hcore1 : core b1 = core b) by reflexivity.
  assert (Hhint1 : b_hints b1 = b_hints b) by reflexivity.
  assert (Hca1 : forall c, chunk_at b1 c = chunk_at b c) by (intros c; reflexivity).
  destruct (pick_dst_gap cf b1 begin_ begin_ (le_n _) ltac:(intros c Hc; lia)) as [Hd1 Hd2]. cbv zeta in Hd1, Hd2.
  set (dst0 := pick_dst cf b1 begin_ begin_) in *.
  rewrite begin_gc_eq. set (kd0 := chunk_at b1 dst0).
  assert (Hdlt : (dst0 < H0)%nat) by (unfold H0; lia).
  destruct (begin_gc_chunk_facts kd0 (Nat.eqb dst0 begin_)) as (B1 & B2 & B3 & B4 & B5); [apply (P2 dst0 Hdlt)|]. cbv zeta in B1, B2, B3, B4, B5.
  set (b2 := set_chunk b1 dst0 (begin_gc_chunk kd0 (Nat.eqb dst0 begin_))).
  assert (Hca2 : forall c, chunk_at b2 c = if Nat.eqb c dst0 then begin_gc_chunk kd0 (Nat.eqb dst0 begin_) else chunk_at b c).
  { intros c. unfold b2. destruct (Nat.eqb_spec c dst0) as [->|Hne]; [apply chunk_at_set_same|]. rewrite chunk_at_set_other by congruence. apply Hca1. }
  assert (Hdisk2 : forall c, k_disk (chunk_at b2 c) = k_disk (chunk_at b c)).
  { intros c. rewrite Hca2. destruct (Nat.eqb_spec c dst0) as [->|]; [exact B3|reflexivity]. }
  assert (Hlog2 : forall p, log_find b2 p = log_find b p).
  { intros p. unfold log_find, all_recs. rewrite Hdisk2, Hca2. destruct (Nat.eqb_spec (p_chunk p) dst0) as [E|]; [|reflexivity].
    rewrite (proj1 B1), E. fold kd0. now rewrite (proj1 (proj1 (P2 dst0 Hdlt))). }
  set (st0 := mkGC b2 dst0 gc0).
  assert (HW0 : k_whead (chunk_at b2 dst0) = if Nat.eqb dst0 begin_ then 0 else k_size kd0) by (rewrite Hca2, Nat.eqb_refl; exact B5).
  (* the invariant holds when the pass starts *)
  assert (HG0 : GI cf hf K b st0 begin_ (k_disk (chunk_at (gc_b st0) begin_))).
  { unfold GI. cbn [gc_b gc_dst st0]. fold H0. rewrite HW0.
    split; [reflexivity|]. split; [exact Hct|].
    split; [intros c Hc; rewrite Hca2; replace (Nat.eqb c dst0) with false by (symmetry; apply Nat.eqb_neq; unfold H0 in *; lia); reflexivity|].
    split; [intros c Hc; rewrite Hca2; destruct (Nat.eqb c dst0); [exact B1|apply (P2 c Hc)]|].
    split; [exact Hd1|]. split; [unfold H0; lia|].
    split; [rewrite Hca2, Nat.eqb_refl; exact B2|].
    split; [rewrite Hca2, Nat.eqb_refl, B4; destruct (Nat.eqb dst0 begin_); lia|].
    split.
    { intros c Hc. rewrite Hca2. replace (Nat.eqb c dst0) with false by (symmetry; apply Nat.eqb_neq; lia).
      pose proof (Hd2 c Hc) as Hs. rewrite Hca1 in Hs. split; [|exact Hs]. apply gchunk_size0'; [apply (P2 c); unfold H0; lia|exact Hs]. }
    split; [auto|]. split; [intros E e He; rewrite E, Nat.eqb_refl; lia|].
    split; [rewrite Hdisk2; apply (P2 begin_); unfold H0; lia|].
    split; [intros c e Hc He; rewrite Hdisk2 in He; now apply (P3 c)|].
    split; [apply (iok_hints_same hf K b); [reflexivity|exact P4]|]. split.
    - intros h s Hs. change (tree_get_slot b2 h) with (tree_get_slot b h) in Hs.
      destruct (Hslots h s Hs) as (r0 & L & A1 & A2 & A3 & A4 & A5). exists r0. rewrite Hlog2.
      repeat (split; [assumption|]).
      destruct (Nat.eq_dec (p_chunk (s_pos s)) begin_) as [E|Hnb].
      + right. right. split; [exact E|]. rewrite Hdisk2.
        rewrite log_find_gchunk in L by (rewrite E; apply (P2 begin_); unfold H0; lia). rewrite E in L. now apply find_off_some_in.
      + destruct (Nat.eq_dec (p_chunk (s_pos s)) dst0) as [E|Hnd]; [|left; now split].
        right. left. split; [exact E|]. replace (Nat.eqb dst0 begin_) with false by (symmetry; apply Nat.eqb_neq; congruence).
        rewrite log_find_gchunk in L by (rewrite E; apply (P2 dst0 Hdlt)). rewrite E in L. apply find_off_some_in in L.
        destruct (P2 dst0 Hdlt) as [(_ & _ & _ & Hsz) _]. rewrite Forall_forall in Hsz. specialize (Hsz _ L). unfold rend in Hsz. exact Hsz.
    - intros k Hk. unfold absr. change (tree_get_slot b2 (hf k)) with (tree_get_slot b (hf k)).
      destruct (tree_get_slot b (hf k)); [now rewrite Hlog2|reflexivity]. }
  assert (HX0 : GX b st0).
  { unfold GX. cbn [gc_b gc_dst st0]. fold H0. split.
    - rewrite Hca2, Nat.eqb_refl. unfold begin_gc_chunk. destruct (Nat.eqb dst0 begin_); cbn [k_rewriting k_whead k_size]; [now left|now right].
    - intros c Hc Hne. rewrite Hca2. replace (Nat.eqb c dst0) with false by (symmetry; apply Nat.eqb_neq; exact Hne). apply Hok. }
  destruct (gc_files_inv cf hf K hf_inj cap_pos b begin_ (end_ - begin_) begin_ st0 HG0 HX0) as [HGe HXe].
  { fold H0. lia. }
  { intros c Hc. apply (P2 c Hc). }
  cbv zeta in HGe, HXe. replace (S (end_ - begin_)) with (S end_ - begin_)%nat in HGe, HXe by lia. fold b1 dst0 in HGe, HXe.
  replace (begin_ + (end_ - begin_))%nat with end_ in HGe by lia.
  set (st := fold_left (gc_file cf hf begin_) (seq begin_ (S end_ - begin_)) st0) in *.
  (* the end of the pass *)
  destruct HGe as (G1 & G2 & G3 & G4 & G5 & G6 & G7 & G8 & G9 & G10 & G11 & G12 & G13 & G14 & G15 & G16). cbv zeta in *.
  destruct HXe as [X1 X2]. cbv zeta in X1, X2. fold H0 in G1, G3, G4, G6, X2.
  set (be := gc_b st) in *. set (D := gc_dst st) in *.
  assert (HDlt : (D < H0)%nat) by lia.
  destruct (end_gc_chunk_facts (chunk_at be D) (G4 D HDlt) G7 G8) as (E1 & _ & E3 & _ & E5 & _). cbv zeta in E1, E3, E5.
  destruct (E5 X1) as [E5a _].
  rewrite end_gc_eq. set (b3 := set_chunk be D (end_gc_chunk (chunk_at be D))).
  apply (Rel_core hf K b3 _ m (eq_sym (trydump_core b3 D true))).
  assert (Hlog3 : forall p r0, log_find be p = Some r0 -> (p_chunk p = D -> p_off p + dsize r0 <= k_whead (chunk_at be D)) -> log_find b3 p = Some r0).
  { intros p r0 Hl Hp. unfold log_find in *. unfold b3. destruct (Nat.eq_dec D (p_chunk p)) as [E|Hne]; [|now rewrite chunk_at_set_other].
    rewrite <- E, chunk_at_set_same. unfold all_recs in *. rewrite (proj1 E1), app_nil_r. rewrite <- E in Hl. rewrite (proj1 (G4 D HDlt)), app_nil_r in Hl.
    destruct E1 as (_ & _ & End & _). apply find_off_in_nodup; [exact End|]. apply E3; [now apply find_off_some_in|apply Hp; now symmetry]. }
  assert (Hslot3 : forall h s, tree_get_slot be h = Some s -> exists r0, log_find be (s_pos s) = Some r0 /\ log_find b3 (s_pos s) = Some r0).
  { intros h s Hs. destruct (G15 h s Hs) as (r0 & L & _ & _ & _ & _ & _ & P). exists r0. split; [exact L|]. apply Hlog3; [exact L|].
    intros E. destruct P as [[P _]|[[_ P]|[_ []]]]; [congruence|exact P]. }
  split.
  - split; [split|split; [exact G2|]].
    + intros c. unfold b3. destruct (Nat.eq_dec D c) as [<-|Hne]; [rewrite chunk_at_set_same; now apply chunk_ok_of_g'|].
      rewrite chunk_at_set_other by exact Hne.
      destruct (Nat.lt_ge_cases c H0) as [Hlt|Hge]; [apply X2; [exact Hlt|congruence]|].
      destruct (Nat.eq_dec c H0) as [->|Hn0]; [rewrite G3 by (now left); apply Hok|].
      rewrite G3 by (right; lia). apply Hok.
    + intros c Hc. change (b_head b3) with (b_head be) in Hc. rewrite G1 in Hc. unfold b3. rewrite chunk_at_set_other by lia.
      rewrite G3 by (right; lia). apply Habove. exact Hc.
    + intros h s Hs. change (tree_get_slot b3 h) with (tree_get_slot be h) in Hs.
      destruct (G15 h s Hs) as (r0 & L & A1 & A2 & A3 & A4 & A5 & P). destruct (Hslot3 h s Hs) as (r1 & L1 & L3). rewrite L in L1. injection L1 as <-.
      exists r0. repeat (split; [assumption|]). exact A5.
  - intros k Hk. rewrite <- (Habs k Hk), <- (abs_of_absr hf be b k (G16 k Hk)). unfold abs. change (tree_get_slot b3 (hf k)) with (tree_get_slot be (hf k)).
    destruct (tree_get_slot be (hf k)) as [s|] eqn:Es; [|reflexivity]. destruct (Hslot3 _ s Es) as (r0 & L & L3). now rewrite L, L3.
Qed.

(* the state a pass starts its loop in *)
Lemma gc_pass_start b m begin_ end_ :
  Rel hf K b m -> GPre b -> (begin_ <= end_ < b_head b)%nat ->
  let b1 := before_bucket cf b false in let dst0 := pick_dst cf b1 begin_ begin_ in
  let st0 := mkGC (begin_gc_writing b1 dst0 begin_) dst0 gc0 in
  GI cf hf K b st0 begin_ (k_disk (chunk_at (gc_b st0) begin_)) /\ GX b st0 /\
  (forall c, k_disk (chunk_at (gc_b st0) c) = k_disk (chunk_at b c)) /\ (forall h, tree_get_slot (gc_b st0) h = tree_get_slot b h).
Proof.
  intros HR (P2 & P3 & P4) Hrange. pose proof HR as [((Hok & Habove) & Hct & Hslots) Habs].
  cbv zeta. set (H0 := b_head b).
  set (b1 := before_bucket cf b false).
  assert (Hcore1 : core b1 = core b) by reflexivity.
  assert (Hhint1 : b_hints b1 = b_hints b) by reflexivity.
  assert (Hca1 : forall c, chunk_at b1 c = chunk_at b c) by (intros c; reflexivity).
  destruct (pick_dst_gap cf b1 begin_ begin_ (le_n _) ltac:(intros c Hc; lia)) as [Hd1 Hd2]. cbv zeta in Hd1, Hd2.
  set (dst0 := pick_dst cf b1 begin_ begin_) in *.
  rewrite begin_gc_eq. set (kd0 := chunk_at b1 dst0).
  assert (Hdlt : (dst0 < H0)%nat) by (unfold H0; lia).
  destruct (begin_gc_chunk_facts kd0 (Nat.eqb dst0 begin_)) as (B1 & B2 & B3 & B4 & B5); [apply (P2 dst0 Hdlt)|]. cbv zeta in B1, B2, B3, B4, B5.
  set (b2 := set_chunk b1 dst0 (begin_gc_chunk kd0 (Nat.eqb dst0 begin_))).
  assert (Hca2 : forall c, chunk_at b2 c = if Nat.eqb c dst0 then begin_gc_chunk kd0 (Nat.eqb dst0 begin_) else chunk_at b c).
  { intros c. unfold b2. destruct (Nat.eqb_spec c dst0) as [->|Hne]; [apply chunk_at_set_same|]. rewrite chunk_at_set_other by congruence. apply Hca1. }
  assert (Hdisk2 : forall c, k_disk (chunk_at b2 c) = k_disk (chunk_at b c)).
  { intros c. rewrite Hca2. destruct (Nat.eqb_spec c dst0) as [->|]; [exact B3|reflexivity]. }
  assert (Hlog2 : forall p, log_find b2 p = log_find b p).
  { intros p. unfold log_find, all_recs. rewrite Hdisk2, Hca2. destruct (Nat.eqb_spec (p_chunk p) dst0) as [E|]; [|reflexivity].
    rewrite (proj1 B1), E. fold kd0. now rewrite (proj1 (proj1 (P2 dst0 Hdlt))). }
  set (st0 := mkGC b2 dst0 gc0).
  assert (HW0 : k_whead (chunk_at b2 dst0) = if Nat.eqb dst0 begin_ then 0 else k_size kd0) by (rewrite Hca2, Nat.eqb_refl; exact B5).
  (* the invariant holds when the pass starts *)
  assert (HG0 : GI cf hf K b st0 begin_ (k_disk (chunk_at (gc_b st0) begin_))).
  { unfold GI. cbn [gc_b gc_dst st0]. fold H0. rewrite HW0.
    split; [reflexivity|]. split; [exact Hct|].
    split; [intros c Hc; rewrite Hca2; replace (Nat.eqb c dst0) with false by (symmetry; apply Nat.eqb_neq; unfold H0 in *; lia); reflexivity|].
    split; [intros c Hc; rewrite Hca2; destruct (Nat.eqb c dst0); [exact B1|apply (P2 c Hc)]|].
    split; [exact Hd1|]. split; [unfold H0; lia|].
    split; [rewrite Hca2, Nat.eqb_refl; exact B2|].
    split; [rewrite Hca2, Nat.eqb_refl, B4; destruct (Nat.eqb dst0 begin_); lia|].
    split.
    { intros c Hc. rewrite Hca2. replace (Nat.eqb c dst0) with false by (symmetry; apply Nat.eqb_neq; lia).
      pose proof (Hd2 c Hc) as Hs. rewrite Hca1 in Hs. split; [|exact Hs]. apply gchunk_size0'; [apply (P2 c); unfold H0; lia|exact Hs]. }
    split; [auto|]. split; [intros E e He; rewrite E, Nat.eqb_refl; lia|].
    split; [rewrite Hdisk2; apply (P2 begin_); unfold H0; lia|].
    split; [intros c e Hc He; rewrite Hdisk2 in He; now apply (P3 c)|].
    split; [apply (iok_hints_same hf K b); [reflexivity|exact P4]|]. split.
    - intros h s Hs. change (tree_get_slot b2 h) with (tree_get_slot b h) in Hs.
      destruct (Hslots h s Hs) as (r0 & L & A1 & A2 & A3 & A4 & A5). exists r0. rewrite Hlog2.
      repeat (split; [assumption|]).
      destruct (Nat.eq_dec (p_chunk (s_pos s)) begin_) as [E|Hnb].
      + right. right. split; [exact E|]. rewrite Hdisk2.
        rewrite log_find_gchunk in L by (rewrite E; apply (P2 begin_); unfold H0; lia). rewrite E in L. now apply find_off_some_in.
      + destruct (Nat.eq_dec (p_chunk (s_pos s)) dst0) as [E|Hnd]; [|left; now split].
        right. left. split; [exact E|]. replace (Nat.eqb dst0 begin_) with false by (symmetry; apply Nat.eqb_neq; congruence).
        rewrite log_find_gchunk in L by (rewrite E; apply (P2 dst0 Hdlt)). rewrite E in L. apply find_off_some_in in L.
        destruct (P2 dst0 Hdlt) as [(_ & _ & _ & Hsz) _]. rewrite Forall_forall in Hsz. specialize (Hsz _ L). unfold rend in Hsz. exact Hsz.
    - intros k Hk. unfold absr. change (tree_get_slot b2 (hf k)) with (tree_get_slot b (hf k)).
      destruct (tree_get_slot b (hf k)); [now rewrite Hlog2|reflexivity]. }
  assert (HX0 : GX b st0).
  { unfold GX. cbn [gc_b gc_dst st0]. fold H0. split.
    - rewrite Hca2, Nat.eqb_refl. unfold begin_gc_chunk. destruct (Nat.eqb dst0 begin_); cbn [k_rewriting k_whead k_size]; [now left|now right].
    - intros c Hc Hne. rewrite Hca2. replace (Nat.eqb c dst0) with false by (symmetry; apply Nat.eqb_neq; exact Hne). apply Hok. }
  split; [exact HG0|]. split; [exact HX0|]. split; [exact Hdisk2|]. intros h. reflexivity.
Qed.

(* ... with all the invariants of the pass (GA) *)
Lemma gc_pass_start_ga b m begin_ end_ :
  Rel hf K b m -> GPre b -> (begin_ <= end_ < b_head b)%nat ->
  let b1 := before_bucket cf b false in let dst0 := pick_dst cf b1 begin_ begin_ in
  let W0 := if Nat.eqb dst0 begin_ then 0 else k_size (chunk_at b dst0) in
  let st0 := mkGC (begin_gc_writing b1 dst0 begin_) dst0 gc0 in
  GA cf hf K b begin_ dst0 W0 st0 begin_ (k_disk (chunk_at (gc_b st0) begin_)) /\
  ((dst0 < begin_)%nat \/ W0 = 0) /\ (dst0 <= begin_)%nat /\
  (forall c, k_disk (chunk_at (gc_b st0) c) = k_disk (chunk_at b c)) /\ (forall h, tree_get_slot (gc_b st0) h = tree_get_slot b h) /\
  k_whead (chunk_at (gc_b st0) dst0) = W0 /\ (forall c, c <> dst0 -> chunk_at (gc_b st0) c = chunk_at b c).
Proof.
  intros HR (P2 & P3 & P4) Hrange. pose proof HR as [((Hok & Habove) & Hct & Hslots) Habs].
  cbv zeta. set (H0 := b_head b).
  set (b1 := before_bucket cf b false).
  assert (Hcore1 : core b1 = core b) by reflexivity.
  assert (Hhint1 : b_hints b1 = b_hints b) by reflexivity.
  assert (Hca1 : forall c, chunk_at b1 c = chunk_at b c) by (intros c; reflexivity).
  destruct (pick_dst_gap cf b1 begin_ begin_ (le_n _) ltac:(intros c Hc; lia)) as [Hd1 Hd2]. cbv zeta in Hd1, Hd2.
  set (dst0 := pick_dst cf b1 begin_ begin_) in *.
  rewrite begin_gc_eq. set (kd0 := chunk_at b1 dst0).
  assert (Hdlt : (dst0 < H0)%nat) by (unfold H0; lia).
  destruct (begin_gc_chunk_facts kd0 (Nat.eqb dst0 begin_)) as (B1 & B2 & B3 & B4 & B5); [apply (P2 dst0 Hdlt)|]. cbv zeta in B1, B2, B3, B4, B5.
  set (b2 := set_chunk b1 dst0 (begin_gc_chunk kd0 (Nat.eqb dst0 begin_))).
  assert (Hca2 : forall c, chunk_at b2 c = if Nat.eqb c dst0 then begin_gc_chunk kd0 (Nat.eqb dst0 begin_) else chunk_at b c).
  { intros c. unfold b2. destruct (Nat.eqb_spec c dst0) as [->|Hne]; [apply chunk_at_set_same|]. rewrite chunk_at_set_other by congruence. apply Hca1. }
  assert (Hdisk2 : forall c, k_disk (chunk_at b2 c) = k_disk (chunk_at b c)).
  { intros c. rewrite Hca2. destruct (Nat.eqb_spec c dst0) as [->|]; [exact B3|reflexivity]. }
  assert (Hlog2 : forall p, log_find b2 p = log_find b p).
  { intros p. unfold log_find, all_recs. rewrite Hdisk2, Hca2. destruct (Nat.eqb_spec (p_chunk p) dst0) as [E|]; [|reflexivity].
    rewrite (proj1 B1), E. fold kd0. now rewrite (proj1 (proj1 (P2 dst0 Hdlt))). }
  set (st0 := mkGC b2 dst0 gc0).
  assert (HW0 : k_whead (chunk_at b2 dst0) = if Nat.eqb dst0 begin_ then 0 else k_size kd0) by (rewrite Hca2, Nat.eqb_refl; exact B5).
  (* the invariant holds when the pass starts *)
  assert (HG0 : GI cf hf K b st0 begin_ (k_disk (chunk_at (gc_b st0) begin_))).
  { unfold GI. cbn [gc_b gc_dst st0]. fold H0. rewrite HW0.
    split; [reflexivity|]. split; [exact Hct|].
    split; [intros c Hc; rewrite Hca2; replace (Nat.eqb c dst0) with false by (symmetry; apply Nat.eqb_neq; unfold H0 in *; lia); reflexivity|].
    split; [intros c Hc; rewrite Hca2; destruct (Nat.eqb c dst0); [exact B1|apply (P2 c Hc)]|].
    split; [exact Hd1|]. split; [unfold H0; lia|].
    split; [rewrite Hca2, Nat.eqb_refl; exact B2|].
    split; [rewrite Hca2, Nat.eqb_refl, B4; destruct (Nat.eqb dst0 begin_); lia|].
    split.
    { intros c Hc. rewrite Hca2. replace (Nat.eqb c dst0) with false by (symmetry; apply Nat.eqb_neq; lia).
      pose proof (Hd2 c Hc) as Hs. rewrite Hca1 in Hs. split; [|exact Hs]. apply gchunk_size0'; [apply (P2 c); unfold H0; lia|exact Hs]. }
    split; [auto|]. split; [intros E e He; rewrite E, Nat.eqb_refl; lia|].
    split; [rewrite Hdisk2; apply (P2 begin_); unfold H0; lia|].
    split; [intros c e Hc He; rewrite Hdisk2 in He; now apply (P3 c)|].
    split; [apply (iok_hints_same hf K b); [reflexivity|exact P4]|]. split.
    - intros h s Hs. change (tree_get_slot b2 h) with (tree_get_slot b h) in Hs.
      destruct (Hslots h s Hs) as (r0 & L & A1 & A2 & A3 & A4 & A5). exists r0. rewrite Hlog2.
      repeat (split; [assumption|]).
      destruct (Nat.eq_dec (p_chunk (s_pos s)) begin_) as [E|Hnb].
      + right. right. split; [exact E|]. rewrite Hdisk2.
        rewrite log_find_gchunk in L by (rewrite E; apply (P2 begin_); unfold H0; lia). rewrite E in L. now apply find_off_some_in.
      + destruct (Nat.eq_dec (p_chunk (s_pos s)) dst0) as [E|Hnd]; [|left; now split].
        right. left. split; [exact E|]. replace (Nat.eqb dst0 begin_) with false by (symmetry; apply Nat.eqb_neq; congruence).
        rewrite log_find_gchunk in L by (rewrite E; apply (P2 dst0 Hdlt)). rewrite E in L. apply find_off_some_in in L.
        destruct (P2 dst0 Hdlt) as [(_ & _ & _ & Hsz) _]. rewrite Forall_forall in Hsz. specialize (Hsz _ L). unfold rend in Hsz. exact Hsz.
    - intros k Hk. unfold absr. change (tree_get_slot b2 (hf k)) with (tree_get_slot b (hf k)).
      destruct (tree_get_slot b (hf k)); [now rewrite Hlog2|reflexivity]. }
  assert (HX0 : GX b st0).
  { unfold GX. cbn [gc_b gc_dst st0]. fold H0. split.
    - rewrite Hca2, Nat.eqb_refl. unfold begin_gc_chunk. destruct (Nat.eqb dst0 begin_); cbn [k_rewriting k_whead k_size]; [now left|now right].
    - intros c Hc Hne. rewrite Hca2. replace (Nat.eqb c dst0) with false by (symmetry; apply Nat.eqb_neq; exact Hne). apply Hok. }
  set (W0 := if Nat.eqb dst0 begin_ then 0 else k_size (chunk_at b dst0)).
  assert (HW0' : k_whead (chunk_at b2 dst0) = W0) by (rewrite HW0; reflexivity).
  assert (HC0 : GC2 hf begin_ dst0 W0 st0).
  { intros c e Hin (Hr1 & Hr2 & Hr3). cbn [gc_b gc_dst st0] in *. assert (c = dst0) by lia. subst c. rewrite HW0' in Hr3.
    specialize (Hr2 eq_refl). specialize (Hr3 eq_refl). unfold rend in Hr3. pose proof (dsize_pos (snd e)). lia. }
  assert (HP0 : GP b dst0 W0 st0).
  { unfold GP. cbn [gc_b gc_dst st0]. split; [lia|]. split; [intros _; rewrite HW0'; lia|]. split; [intros e _; now rewrite Hdisk2|].
    intros e He. rewrite Hdisk2 in He. unfold W0. destruct (Nat.eqb dst0 begin_); [right; lia|left].
    destruct (P2 dst0 Hdlt) as [(_ & _ & _ & Hsz) _]. rewrite Forall_forall in Hsz. exact (Hsz e He). }
  assert (Hs0 : (dst0 < begin_)%nat \/ W0 = 0).
  { unfold W0. destruct (Nat.eqb_spec dst0 begin_) as [E|Hne]; [now right|left; lia]. }
  assert (HS0 : GS dst0 st0).
  { unfold GS. cbn [gc_b gc_dst st0]. split; [intros c Hc; lia|]. unfold below. rewrite Hdisk2, HW0'. unfold W0.
    destruct (P2 dst0 Hdlt) as [(_ & _ & _ & Hsz) Hsp]. destruct (Nat.eqb dst0 begin_).
    - rewrite filter_nil_all; [constructor|]. intros x _. pose proof (dsize_pos (snd x)). unfold rend. lia.
    - rewrite filter_id_all; [exact Hsp|]. intros x Hx. rewrite Forall_forall in Hsz. specialize (Hsz x Hx). cbv beta in Hsz. apply N.leb_le. exact Hsz. }
  split; [split; [exact HG0|split; [exact HX0|split; [exact HC0|split; [exact HP0|exact HS0]]]]|].
  split; [exact Hs0|]. split; [exact Hd1|]. split; [exact Hdisk2|]. split; [intros h; reflexivity|]. split; [exact HW0'|].
  intros c Hc. rewrite Hca2. now replace (Nat.eqb c dst0) with false by (symmetry; apply Nat.eqb_neq; exact Hc).
Qed.

(* C18: what the files written by the pass contain afterwards *)
Theorem gc_pass_reclaims b m begin_ end_ :
  Rel hf K b m -> GPre b -> (begin_ <= end_ < b_head b)%nat ->
  let b' := fst (gc_pass cf hf b begin_ end_ false) in
  let dst0 := pick_dst cf (before_bucket cf b false) begin_ begin_ in
  let W0 := if Nat.eqb dst0 begin_ then 0 else k_size (chunk_at b dst0) in
  exists D, (dst0 <= begin_ /\ dst0 <= D <= end_)%nat /\
    (forall c, (dst0 < c < begin_)%nat -> k_disk (chunk_at b c) = []) /\
    (forall c e, (dst0 <= c <= D)%nat -> In e (k_disk (chunk_at b' c)) -> (c = dst0 -> W0 <= fst e) -> cur_or_tomb hf begin_ b' c e) /\
    (forall c, (D < c <= end_)%nat -> k_disk (chunk_at b' c) = [] /\ k_size (chunk_at b' c) = 0) /\
    (forall e, rend e <= W0 -> (In e (k_disk (chunk_at b' dst0)) <-> In e (k_disk (chunk_at b dst0)))) /\
    (forall e, In e (k_disk (chunk_at b' dst0)) -> rend e <= W0 \/ W0 <= fst e) /\
    (forall c, (c < b_head b)%nat -> gchunk (chunk_at b' c)) /\
    GPre b' /\
    D = gc_dst (fold_left (gc_file cf hf begin_) (seq begin_ (S end_ - begin_)) (mkGC (begin_gc_writing (before_bucket cf b false) dst0 begin_) dst0 gc0)).
Proof.
  intros HR (P2 & P3 & P4) Hrange. pose proof HR as [((Hok & Habove) & Hct & Hslots) Habs].
  cbv zeta. unfold gc_pass. cbn [fst]. set (H0 := b_head b).
  set (b1 := before_bucket cf b false).
  assert (Hcore1 : core b1 = core b) by reflexivity.
  assert (Hhint1 : b_hints b1 = b_hints b) by reflexivity.
  assert (Hca1 : forall c, chunk_at b1 c = chunk_at b c) by (intros c; reflexivity).
  destruct (pick_dst_gap cf b1 begin_ begin_ (le_n _) ltac:(intros c Hc; lia)) as [Hd1 Hd2]. cbv zeta in Hd1, Hd2.
  set (dst0 := pick_dst cf b1 begin_ begin_) in *.
  rewrite begin_gc_eq. set (kd0 := chunk_at b1 dst0).
  assert (Hdlt : (dst0 < H0)%nat) by (unfold H0; lia).
  destruct (begin_gc_chunk_facts kd0 (Nat.eqb dst0 begin_)) as (B1 & B2 & B3 & B4 & B5); [apply (P2 dst0 Hdlt)|]. cbv zeta in B1, B2, B3, B4, B5.
  set (b2 := set_chunk b1 dst0 (begin_gc_chunk kd0 (Nat.eqb dst0 begin_))).
  assert (Hca2 : forall c, chunk_at b2 c = if Nat.eqb c dst0 then begin_gc_chunk kd0 (Nat.eqb dst0 begin_) else chunk_at b c).
  { intros c. unfold b2. destruct (Nat.eqb_spec c dst0) as [->|Hne]; [apply chunk_at_set_same|]. rewrite chunk_at_set_other by congruence. apply Hca1. }
  assert (Hdisk2 : forall c, k_disk (chunk_at b2 c) = k_disk (chunk_at b c)).
  { intros c. rewrite Hca2. destruct (Nat.eqb_spec c dst0) as [->|]; [exact B3|reflexivity]. }
  assert (Hlog2 : forall p, log_find b2 p = log_find b p).
  { intros p. unfold log_find, all_recs. rewrite Hdisk2, Hca2. destruct (Nat.eqb_spec (p_chunk p) dst0) as [E|]; [|reflexivity].
    rewrite (proj1 B1), E. fold kd0. now rewrite (proj1 (proj1 (P2 dst0 Hdlt))). }
  set (st0 := mkGC b2 dst0 gc0).
  assert (HW0 : k_whead (chunk_at b2 dst0) = if Nat.eqb dst0 begin_ then 0 else k_size kd0) by (rewrite Hca2, Nat.eqb_refl; exact B5).
  (* the invariant holds when the pass starts *)
  assert (HG0 : GI cf hf K b st0 begin_ (k_disk (chunk_at (gc_b st0) begin_))).
  { unfold GI. cbn [gc_b gc_dst st0]. fold H0. rewrite HW0.
    split; [reflexivity|]. split; [exact Hct|].
    split; [intros c Hc; rewrite Hca2; replace (Nat.eqb c dst0) with false by (symmetry; apply Nat.eqb_neq; unfold H0 in *; lia); reflexivity|].
    split; [intros c Hc; rewrite Hca2; destruct (Nat.eqb c dst0); [exact B1|apply (P2 c Hc)]|].
    split; [exact Hd1|]. split; [unfold H0; lia|].
    split; [rewrite Hca2, Nat.eqb_refl; exact B2|].
    split; [rewrite Hca2, Nat.eqb_refl, B4; destruct (Nat.eqb dst0 begin_); lia|].
    split.
    { intros c Hc. rewrite Hca2. replace (Nat.eqb c dst0) with false by (symmetry; apply Nat.eqb_neq; lia).
      pose proof (Hd2 c Hc) as Hs. rewrite Hca1 in Hs. split; [|exact Hs]. apply gchunk_size0'; [apply (P2 c); unfold H0; lia|exact Hs]. }
    split; [auto|]. split; [intros E e He; rewrite E, Nat.eqb_refl; lia|].
    split; [rewrite Hdisk2; apply (P2 begin_); unfold H0; lia|].
    split; [intros c e Hc He; rewrite Hdisk2 in He; now apply (P3 c)|].
    split; [apply (iok_hints_same hf K b); [reflexivity|exact P4]|]. split.
    - intros h s Hs. change (tree_get_slot b2 h) with (tree_get_slot b h) in Hs.
      destruct (Hslots h s Hs) as (r0 & L & A1 & A2 & A3 & A4 & A5). exists r0. rewrite Hlog2.
      repeat (split; [assumption|]).
      destruct (Nat.eq_dec (p_chunk (s_pos s)) begin_) as [E|Hnb].
      + right. right. split; [exact E|]. rewrite Hdisk2.
        rewrite log_find_gchunk in L by (rewrite E; apply (P2 begin_); unfold H0; lia). rewrite E in L. now apply find_off_some_in.
      + destruct (Nat.eq_dec (p_chunk (s_pos s)) dst0) as [E|Hnd]; [|left; now split].
        right. left. split; [exact E|]. replace (Nat.eqb dst0 begin_) with false by (symmetry; apply Nat.eqb_neq; congruence).
        rewrite log_find_gchunk in L by (rewrite E; apply (P2 dst0 Hdlt)). rewrite E in L. apply find_off_some_in in L.
        destruct (P2 dst0 Hdlt) as [(_ & _ & _ & Hsz) _]. rewrite Forall_forall in Hsz. specialize (Hsz _ L). unfold rend in Hsz. exact Hsz.
    - intros k Hk. unfold absr. change (tree_get_slot b2 (hf k)) with (tree_get_slot b (hf k)).
      destruct (tree_get_slot b (hf k)); [now rewrite Hlog2|reflexivity]. }
  assert (HX0 : GX b st0).
  { unfold GX. cbn [gc_b gc_dst st0]. fold H0. split.
    - rewrite Hca2, Nat.eqb_refl. unfold begin_gc_chunk. destruct (Nat.eqb dst0 begin_); cbn [k_rewriting k_whead k_size]; [now left|now right].
    - intros c Hc Hne. rewrite Hca2. replace (Nat.eqb c dst0) with false by (symmetry; apply Nat.eqb_neq; exact Hne). apply Hok. }
  set (W0 := if Nat.eqb dst0 begin_ then 0 else k_size (chunk_at b dst0)).
  assert (HW0' : k_whead (chunk_at b2 dst0) = W0) by (rewrite HW0; reflexivity).
  assert (HC0 : GC2 hf begin_ dst0 W0 st0).
  { intros c e Hin (Hr1 & Hr2 & Hr3). cbn [gc_b gc_dst st0] in *. assert (c = dst0) by lia. subst c. rewrite HW0' in Hr3.
    specialize (Hr2 eq_refl). specialize (Hr3 eq_refl). unfold rend in Hr3. pose proof (dsize_pos (snd e)). lia. }
  assert (HP0 : GP b dst0 W0 st0).
  { unfold GP. cbn [gc_b gc_dst st0]. split; [lia|]. split; [intros _; rewrite HW0'; lia|]. split; [intros e _; now rewrite Hdisk2|].
    intros e He. rewrite Hdisk2 in He. unfold W0. destruct (Nat.eqb dst0 begin_); [right; lia|left].
    destruct (P2 dst0 Hdlt) as [(_ & _ & _ & Hsz) _]. rewrite Forall_forall in Hsz. exact (Hsz e He). }
  assert (Hs0 : (dst0 < begin_)%nat \/ W0 = 0).
  { unfold W0. destruct (Nat.eqb_spec dst0 begin_) as [E|Hne]; [now right|left; lia]. }
  assert (HS0 : GS dst0 st0).
  { unfold GS. cbn [gc_b gc_dst st0]. split; [intros c Hc; lia|]. unfold below. rewrite Hdisk2, HW0'. unfold W0.
    destruct (P2 dst0 Hdlt) as [(_ & _ & _ & Hsz) Hsp]. destruct (Nat.eqb dst0 begin_).
    - rewrite filter_nil_all; [constructor|]. intros x _. pose proof (dsize_pos (snd x)). unfold rend. lia.
    - rewrite filter_id_all; [exact Hsp|]. intros x Hx. rewrite Forall_forall in Hsz. specialize (Hsz x Hx). cbv beta in Hsz. apply N.leb_le. exact Hsz. }
  destruct (ga_files cf hf K hf_inj cap_pos b begin_ dst0 W0 (end_ - begin_) begin_ st0) as [(HGe & HXe & HCe & HPe & HSe) Hlast].
  { split; [exact HG0|]. split; [exact HX0|]. split; [exact HC0|]. split; [exact HP0|exact HS0]. }
  { fold H0. lia. }
  { intros c Hc. apply (P2 c Hc). }
  { exact Hs0. }
  cbv zeta in HGe, HXe, HCe, HPe, HSe, Hlast. replace (S (end_ - begin_)) with (S end_ - begin_)%nat in HGe, HXe, HCe, HPe, HSe, Hlast by lia. fold b1 dst0 in HGe, HXe, HCe, HPe, HSe, Hlast.
  replace (begin_ + (end_ - begin_))%nat with end_ in HGe, Hlast by lia.
  set (st := fold_left (gc_file cf hf begin_) (seq begin_ (S end_ - begin_)) st0) in *.
  destruct HGe as (G1 & G2 & G3 & G4 & G5 & G6 & G7 & G8 & G9 & G10 & G11 & G12 & G13 & G14 & G15 & G16). cbv zeta in *.
  destruct HXe as [X1 X2]. cbv zeta in X1, X2. fold H0 in G1, G3, G4, G6, X2. destruct HPe as (Q1 & Q2 & Q3 & Q4).
  set (be := gc_b st) in *. set (D := gc_dst st) in *.
  assert (HDlt : (D < H0)%nat) by lia.
  destruct (end_gc_chunk_facts (chunk_at be D) (G4 D HDlt) G7 G8) as (E1 & _ & E3 & E4 & E5 & E6). cbv zeta in E1, E3, E4, E5, E6.
  destruct (E5 X1) as [E5a _].
  rewrite end_gc_eq. set (b3 := set_chunk be D (end_gc_chunk (chunk_at be D))).
  pose proof (trydump_core b3 D true) as Hcore.
  assert (Hch : forall c, chunk_at (trydump b3 D true) c = if Nat.eqb c D then end_gc_chunk (chunk_at be D) else chunk_at be c).
  { intros c. rewrite (core_chunk_at _ _ c Hcore). unfold b3. destruct (Nat.eqb_spec c D) as [->|Hne]; [apply chunk_at_set_same|apply chunk_at_set_other; congruence]. }
  assert (Htr : forall h, tree_get_slot (trydump b3 D true) h = tree_get_slot be h) by (intros h; rewrite (core_tree _ _ h Hcore); reflexivity).
  exists D. split; [lia|]. split.
  { intros c Hc. apply gchunk_size0'; [apply (P2 c); unfold H0 in *; lia|]. rewrite <- Hca1. apply Hd2. exact Hc. }
  split.
  { intros c e Hc Hin Hlo. rewrite Hch in Hin.
    assert (Hold : In e (k_disk (chunk_at be c)) /\ in_region dst0 W0 D (k_whead (chunk_at be D)) c e).
    { destruct (Nat.eqb_spec c D) as [Ec|Hne].
      - split; [rewrite Ec; now apply E4|]. split; [exact Hc|]. split; [exact Hlo|]. intros _. rewrite Forall_forall in E5a. specialize (E5a e Hin). now rewrite E6 in E5a.
      - split; [exact Hin|]. split; [exact Hc|]. split; [exact Hlo|]. intros E. congruence. }
    destruct (HCe c e (proj1 Hold) (proj2 Hold)) as [(s & Hs & Hp)|[Hn Hv]]; [left; exists s|right]; rewrite Htr; auto. }
  split.
  { intros c Hc. rewrite Hch. replace (Nat.eqb c D) with false by (symmetry; apply Nat.eqb_neq; lia).
    destruct (Nat.eq_dec c end_) as [->|Hne]; [apply Hlast; lia|]. apply G9. lia. }
  split.
  { intros e He. rewrite <- (Q3 e He). rewrite Hch. destruct (Nat.eqb_spec dst0 D) as [E|Hne]; [|reflexivity].
    rewrite E. split; [apply E4|]. destruct e as [o r0]. intros Hin. apply E3; [exact Hin|]. specialize (Q2 (eq_sym E)). rewrite E in Q2. unfold rend in He. cbn [fst snd] in He. lia. }
  split.
  { intros e Hin. rewrite Hch in Hin. apply Q4. destruct (Nat.eqb_spec dst0 D) as [E|Hne]; [|exact Hin]. rewrite E. now apply E4. }
  assert (Hgch : forall c, (c < H0)%nat -> gchunk (chunk_at (trydump b3 D true) c)) by (intros c Hc; rewrite Hch; destruct (Nat.eqb c D); [apply E1|apply (G4 c Hc)]).
  split; [exact Hgch|].
  (* the bucket is again one a GC pass can start on *)
  destruct HSe as [S1 S2]. fold be D in S1, S2.
  destruct (gc_pass_touches_only cf hf b begin_ end_ false) as (_ & _ & [_ Hunt]). cbv zeta in Hunt. unfold gc_pass in Hunt. cbn [fst] in Hunt.
  fold b1 dst0 in Hunt. rewrite begin_gc_eq in Hunt. fold kd0 b2 st0 st be D in Hunt. rewrite end_gc_eq in Hunt. fold b3 in Hunt.
  assert (Hhd : b_head (trydump b3 D true) = H0) by (rewrite (core_head _ _ Hcore); exact G1).
  split; [|reflexivity]. split; [|split].
  - intros c Hc. rewrite Hhd in Hc. split; [apply (Hgch c Hc)|].
    destruct (Nat.lt_ge_cases c dst0) as [Hlo|Hge]; [rewrite Hunt by lia; apply (P2 c Hc)|].
    destruct (Nat.lt_ge_cases end_ c) as [Hhi|Hle]; [rewrite Hunt by lia; apply (P2 c Hc)|].
    rewrite Hch. destruct (Nat.eqb_spec c D) as [->|Hne].
    + rewrite end_gc_disk; [exact S2|apply (G4 D HDlt)|exact G7|exact X1].
    + destruct (Nat.lt_ge_cases c D) as [Hlt|Hgt]; [apply S1; lia|].
      destruct (Nat.eq_dec c end_) as [->|Hne2]; [rewrite (proj1 (Hlast ltac:(lia))); constructor|].
      rewrite (proj1 (G9 c ltac:(lia))). constructor.
  - intros c e Hc Hin. rewrite Hhd in Hc. rewrite Hch in Hin. apply (G13 c e Hc). destruct (Nat.eqb_spec c D) as [->|Hne]; [now apply E4|exact Hin].
  - apply iok_trydump. apply (iok_hints_same hf K be); [reflexivity|exact G14].
Qed.

(* the files of the collected range themselves *)
Corollary gc_pass_range_files b m begin_ end_ :
  Rel hf K b m -> GPre b -> (begin_ <= end_ < b_head b)%nat ->
  let b' := fst (gc_pass cf hf b begin_ end_ false) in
  forall c e, (begin_ <= c <= end_)%nat -> In e (k_disk (chunk_at b' c)) ->
    cur_or_tomb hf begin_ b' c e /\ find_off (k_disk (chunk_at b' c)) (fst e) = Some (snd e).
Proof.
  intros HR HP Hrange. cbv zeta. intros c e Hc Hin.
  destruct (gc_pass_reclaims b m begin_ end_ HR HP Hrange) as (D & (Hd1 & Hd2) & _ & Hcur & Hemp & _ & _ & Hg & _). cbv zeta in *.
  split.
  - destruct (Nat.le_gt_cases c D) as [Hle|Hgt].
    + apply Hcur; [lia|exact Hin|]. intros E. replace (Nat.eqb (pick_dst cf (before_bucket cf b false) begin_ begin_) begin_) with true by (symmetry; apply Nat.eqb_eq; lia). lia.
    + destruct (Hemp c ltac:(lia)) as [He _]. rewrite He in Hin. destruct Hin.
  - destruct (Hg c ltac:(lia)) as (_ & _ & Hnd & _). destruct e as [o r]. now apply find_off_in_nodup.
Qed.

Corollary gc_pass_range_once b m begin_ end_ :
  Rel hf K b m -> GPre b -> (begin_ <= end_ < b_head b)%nat ->
  let b' := fst (gc_pass cf hf b begin_ end_ false) in
  forall c1 e1 c2 e2, (begin_ <= c1 <= end_)%nat -> (begin_ <= c2 <= end_)%nat ->
    In e1 (k_disk (chunk_at b' c1)) -> In e2 (k_disk (chunk_at b' c2)) -> d_key (snd e1) = d_key (snd e2) ->
    tree_get_slot b' (hf (d_key (snd e1))) <> None -> c1 = c2 /\ e1 = e2.
Proof.
  intros HR HP Hrange. cbv zeta. intros c1 e1 c2 e2 H1 H2 I1 I2 Hk Hs.
  destruct (gc_pass_range_files b m begin_ end_ HR HP Hrange c1 e1 H1 I1) as [[(s1 & T1 & Q1)|[N1 _]] F1]; [|congruence].
  destruct (gc_pass_range_files b m begin_ end_ HR HP Hrange c2 e2 H2 I2) as [[(s2 & T2 & Q2)|[N2 _]] F2]; [|rewrite <- Hk in N2; congruence].
  cbv zeta in *. rewrite <- Hk, T1 in T2. injection T2 as <-. rewrite Q1 in Q2. injection Q2 as Ec Eo. split; [exact Ec|].
  subst c2. rewrite <- Eo in F2. rewrite F1 in F2. destruct e1, e2. cbn [fst snd] in *. injection F2 as <-. now subst.
Qed.

(* passes can follow one another: the result is again a state a pass can start on *)
Corollary gc_pass_again_ok b m begin_ end_ :
  Rel hf K b m -> GPre b -> (begin_ <= end_ < b_head b)%nat ->
  let b' := fst (gc_pass cf hf b begin_ end_ false) in Rel hf K b' m /\ GPre b' /\ b_head b' = b_head b.
Proof.
  intros HR HP Hrange. cbv zeta. split; [now apply gc_pass_view|]. split.
  - destruct (gc_pass_reclaims b m begin_ end_ HR HP Hrange) as (D & _ & _ & _ & _ & _ & _ & _ & Hg & _). exact Hg.
  - destruct (gc_pass_touches_only cf hf b begin_ end_ false) as (_ & _ & [Hh _]). exact Hh.
Qed.

(* C17: the last destination never lies above the range, so nothing outside [dst0, end] is touched *)
Corollary gc_pass_touches_range b m begin_ end_ :
  Rel hf K b m -> GPre b -> (begin_ <= end_ < b_head b)%nat ->
  let dst0 := pick_dst cf (before_bucket cf b false) begin_ begin_ in
  (dst0 <= begin_)%nat /\ (forall c, (dst0 < c < begin_)%nat -> k_disk (chunk_at b c) = []) /\
  untouched (fun c => (dst0 <= c <= end_)%nat) b (fst (gc_pass cf hf b begin_ end_ false)).
Proof.
  intros HR HP Hrange. cbv zeta.
  destruct (gc_pass_start b m begin_ end_ HR HP Hrange) as (HG0 & HX0 & _ & _). cbv zeta in HG0, HX0.
  destruct (gc_files_inv cf hf K hf_inj cap_pos b begin_ (end_ - begin_) begin_ _ HG0 HX0) as [HGe _]; [lia|intros c Hc; apply (proj1 HP c Hc)|].
  cbv zeta in HGe. replace (S (end_ - begin_)) with (S end_ - begin_)%nat in HGe by lia. replace (begin_ + (end_ - begin_))%nat with end_ in HGe by lia.
  destruct HGe as (_ & _ & _ & _ & G5 & _). cbv zeta in G5.
  destruct (gc_pass_touches_only cf hf b begin_ end_ false) as (T1 & T2 & T3). cbv zeta in T1, T2, T3.
  destruct (gc_pass_reclaims b m begin_ end_ HR HP Hrange) as (D & _ & Hgap & _).
  split; [exact T1|]. split; [exact Hgap|].
  eapply untouched_weaken; [|exact T3]. cbv beta. intros c Hc. lia.
Qed.

(* any number of passes, each over its own range *)
Definition gc_passes (cf : cfg) (hf : bytes -> N) (b : bucket) (ranges : list (nat * nat)) : bucket :=
  fold_left (fun bb r => fst (gc_pass cf hf bb (fst r) (snd r) false)) ranges b.

Corollary gc_passes_view : forall ranges b m,
  Rel hf K b m -> GPre b -> Forall (fun r => (fst r <= snd r < b_head b)%nat) ranges ->
  Rel hf K (gc_passes cf hf b ranges) m /\ GPre (gc_passes cf hf b ranges) /\ b_head (gc_passes cf hf b ranges) = b_head b.
Proof.
  induction ranges as [|[x y] rs IH]; intros b m HR HP Hall; unfold gc_passes; cbn [fold_left]; [split; [exact HR|split; [exact HP|reflexivity]]|].
  inversion Hall as [|? ? Hxy Hrest]; subst. cbn [fst snd] in Hxy |- *.
  destruct (gc_pass_again_ok b m x y HR HP Hxy) as (HR' & HP' & Hh'). cbv zeta in HR', HP', Hh'.
  destruct (IH (fst (gc_pass cf hf b x y false)) m HR' HP') as (I1 & I2 & I3).
  { eapply Forall_impl; [|exact Hrest]. cbv beta. intros r Hr. rewrite Hh'. exact Hr. }
  unfold gc_passes in I1, I2, I3. split; [exact I1|]. split; [exact I2|]. rewrite I3. exact Hh'.
Qed.

(* C18: running the same pass again releases nothing *)
Theorem gc_pass_twice b m begin_ end_ :
  Rel hf K b m -> GPre b -> (begin_ <= end_ < b_head b)%nat ->
  let b' := fst (gc_pass cf hf b begin_ end_ false) in
  let gs := snd (gc_pass cf hf b' begin_ end_ false) in
  g_released gs = 0 /\ g_size_released gs = 0.
Proof.
  intros HR HP Hrange. cbv zeta.
  destruct (gc_pass_again_ok b m begin_ end_ HR HP Hrange) as (HR' & HP' & Hh'). cbv zeta in HR', HP', Hh'.
  pose proof (gc_pass_range_files b m begin_ end_ HR HP Hrange) as Hcur. cbv zeta in Hcur.
  set (b' := fst (gc_pass cf hf b begin_ end_ false)) in *.
  assert (Hrange' : (begin_ <= end_ < b_head b')%nat) by lia.
  destruct (gc_pass_start b' m begin_ end_ HR' HP' Hrange') as (HG0 & HX0 & Hd0 & Ht0). cbv zeta in HG0, HX0, Hd0, Ht0.
  unfold gc_pass at 1. cbn [snd].
  set (st0 := mkGC (begin_gc_writing (before_bucket cf b' false) (pick_dst cf (before_bucket cf b' false) begin_ begin_) begin_)
                   (pick_dst cf (before_bucket cf b' false) begin_ begin_) gc0) in *.
  assert (HR0 : GR hf b' begin_ end_ st0 begin_ (k_disk (chunk_at (gc_b st0) begin_))).
  { unfold GR, cur_or_tomb. split; [|split; [|split; reflexivity]].
    - intros e He. rewrite Ht0. rewrite Hd0 in He. apply (Hcur begin_ e ltac:(lia) He).
    - intros c e Hc He. rewrite Ht0. apply (Hcur c e ltac:(lia) He). }
  pose proof (gr_files cf hf K hf_inj cap_pos b' begin_ end_ (end_ - begin_) begin_ st0 HG0 HX0 HR0 ltac:(lia) ltac:(lia)) as HRe.
  replace (S (end_ - begin_)) with (S end_ - begin_)%nat in HRe by lia.
  destruct HRe as (_ & _ & R3 & R4); [intros c Hc; apply (proj1 HP' c Hc)|]. split; assumption.
Qed.
End GV3.

(* ---- the invariant of client operations and restarts gives what a GC pass needs ---- *)
Lemma cov_items_ok hf K c recs : forall sps lo, cov hf K c lo sps recs -> forall it, In it (items_of sps) -> item_ok hf K it.
Proof.
  induction sps as [|sp sps IH]; intros lo Hc it Hin; [destruct Hin|]. cbn [cov] in Hc. destruct Hc as [(_ & _ & Hok) Hrest].
  unfold items_of in Hin. cbn [map List.concat] in Hin. apply in_app_or in Hin as [Hin|Hin].
  - rewrite Forall_forall in Hok. now apply Hok.
  - now apply (IH _ Hrest).
Qed.

Lemma sorted_nodup (l : list (N * drec)) : StronglySorted (fun a b => fst a < fst b) l -> NoDup (map fst l).
Proof.
  induction 1 as [|x l Hs IH Hx]; cbn [map]; constructor; [|exact IH].
  intros Hin. apply in_map_iff in Hin as (y & Hy & Hin). rewrite Forall_forall in Hx. specialize (Hx y Hin). lia.
Qed.

Definition FMok (cf : cfg) (b : bucket) : Prop :=
  forall c e, (c < b_head b)%nat -> In e (k_disk (chunk_at b c)) -> rend e <= c_filemax cf.

Lemma xinv_gpre cf hf K b : XInv hf K b -> FMok cf b -> GPre cf hf K b.
Proof.
  intros (X1 & X2 & X3 & X4 & _) Hfm.
  assert (Hrecs : forall c, (c < b_head b)%nat -> all_recs (chunk_at b c) = k_disk (chunk_at b c)).
  { intros c Hc. unfold all_recs. rewrite (X2 c) by lia. apply app_nil_r. }
  split; [|split].
  - intros c Hc. destruct (X1 c) as (Hok & Hsp & Hall & _ & Hsz & _). rewrite (Hrecs c Hc) in Hsp, Hall. split; [|exact Hsp].
    split; [apply X2; lia|]. split; [apply Hok|]. split; [apply sorted_nodup, spaced_lt, Hsp|]. rewrite Hsz. exact Hall.
  - intros c e Hc He. split; [now apply (Hfm c)|]. apply (X3 c). unfold recs_at. now rewrite (Hrecs c Hc).
  - intros c it Hin. destruct (X4 c) as (_ & Hc & _). apply (cov_items_ok hf K c _ _ 0 Hc it Hin).
Qed.
