(* C03: a GC pass (no hint merge) never changes what any key reads.  Loop invariant over the per-record
   steps: in-place rewriting, destination switches, stale tails, source clearing. *)
From Coq Require Import NArith ZArith List Bool Lia ZifyN ZifyNat ZifyBool Sorting.Sorted FMapPositive.
From GB Require Import Consts Words Hash HintFile HTree Compress Bucket BucketOpen Gc CheckL2 RefMap
     BucketBasics Refine GcTouch LogMono CollideProofs Upd Restart1 Restart2 GcSplit GcSplitProofs.
Import ListNotations.
Open Scope N_scope.

Definition rend (e : N * drec) : N := fst e + dsize (snd e).

(* ---- one chunk under GC: no write buffer, unique offsets ---- *)
Definition gchunk (k : chunk) : Prop :=
  k_wbuf k = [] /\ (k_exists k = false -> k_disk k = []) /\ NoDup (map fst (k_disk k)) /\ Forall (fun e => rend e <= k_size k) (k_disk k).

Lemma find_off_in_nodup l o r : NoDup (map fst l) -> In (o, r) l -> find_off l o = Some r.
Proof.
  induction l as [|[o' r'] l IH]; intros Hnd Hin; [destruct Hin|]. cbn [find_off]. cbn [map] in Hnd. inversion Hnd as [|? ? Hni Hnd']; subst.
  destruct Hin as [E|Hin]; [injection E as -> ->; now rewrite N.eqb_refl|].
  destruct (N.eqb_spec o' o) as [->|Hne]; [exfalso; apply Hni; apply in_map_iff; exists (o, r); auto|]. now apply IH.
Qed.

Lemma find_off_some_in l o r : find_off l o = Some r -> In (o, r) l.
Proof.
  induction l as [|[o' r'] l IH]; cbn [find_off]; [discriminate|]. destruct (N.eqb_spec o' o) as [->|Hne].
  - intros H; injection H as <-. now left.
  - intros H. right. auto.
Qed.

Lemma gchunk_read k off : gchunk k -> rd_rec (chunk_read k off) = find_off (k_disk k) off /\ (rd_ok (chunk_read k off) = false -> chunk_read k off = RFail).
Proof.
  intros (Hw & He & _). unfold chunk_read. rewrite Hw. destruct (k_exists k) eqn:E.
  - destruct (find_off (k_disk k) off); cbn; split; auto; discriminate.
  - rewrite (He eq_refl). cbn. auto.
Qed.

(* AppendRecordGC on the chunk itself *)
Definition append_gc_chunk (k : chunk) (r : drec) : chunk :=
  let off := k_whead k in let sz := dsize r in
  mkChunk true (filter (fun e => (fst e + dsize (snd e) <=? off) || (off + sz <=? fst e)) (k_disk k) ++ [(off, r)])
          (N.max (k_fsize k) (off + sz)) (k_wbuf k) (off + sz) (if k_size k <=? off + sz then off + sz else k_size k) (k_rewriting k).

Lemma append_gc_eq b dst r : append_gc b dst r = (set_chunk b dst (append_gc_chunk (chunk_at b dst) r), k_whead (chunk_at b dst)).
Proof. reflexivity. Qed.

Definition nostraddle (k : chunk) : Prop := Forall (fun e => rend e <= k_whead k \/ k_whead k <= fst e) (k_disk k).

Lemma append_gc_chunk_facts k r : gchunk k -> nostraddle k ->
  let k' := append_gc_chunk k r in
  gchunk k' /\ nostraddle k' /\ k_whead k' = k_whead k + dsize r /\
  find_off (k_disk k') (k_whead k) = Some r /\
  (forall o r0, In (o, r0) (k_disk k) -> (o + dsize r0 <= k_whead k \/ k_whead k + dsize r <= o) -> In (o, r0) (k_disk k')) /\
  (forall o r0, In (o, r0) (k_disk k') -> (o, r0) = (k_whead k, r) \/ In (o, r0) (k_disk k)) /\
  k_rewriting k' = k_rewriting k /\ k_size k <= k_size k'.
Proof.
  intros (Hw & He & Hnd & Hsz) Hns. cbv zeta. unfold append_gc_chunk.
  set (off := k_whead k). set (sz := dsize r). pose proof (dsize_pos r) as Hp. fold sz in Hp.
  set (f := fun e : N * drec => (fst e + dsize (snd e) <=? off) || (off + sz <=? fst e)).
  assert (Hkept : forall e, In e (filter f (k_disk k)) -> In e (k_disk k) /\ (rend e <= off \/ off + sz <= fst e)).
  { intros e H. apply filter_In in H as [H1 H2]. split; [exact H1|]. unfold f, rend in *. lia. }
  assert (Hnot : ~ In off (map fst (filter f (k_disk k)))).
  { intros H. apply in_map_iff in H as (e & He1 & He2). destruct (Hkept e He2) as [_ [H|H]]; unfold rend in *; pose proof (dsize_pos (snd e)); lia. }
  split; [|split; [|split; [reflexivity|split; [|split; [|split; [|split; [reflexivity|]]]]]]].
  - unfold gchunk. cbn [k_wbuf k_exists k_disk k_size]. split; [exact Hw|]. split; [discriminate|]. split.
    + rewrite map_app. cbn [map fst]. apply nodup_snoc; [|exact Hnot].
      clear -Hnd. induction (k_disk k) as [|x l IH]; cbn [filter map]; [constructor|]. cbn [map] in Hnd. inversion Hnd as [|? ? Hni Hnd']; subst.
      destruct (f x); cbn [map]; [|auto]. constructor; [|auto]. intros H. apply Hni. apply in_map_iff in H as (y & Hy & Hin). apply filter_In in Hin as [Hin _]. apply in_map_iff. eauto.
    + apply Forall_app. split.
      * apply Forall_forall. intros e H. destruct (Hkept e H) as [H1 _]. rewrite Forall_forall in Hsz. specialize (Hsz e H1).
        destruct (k_size k <=? off + sz) eqn:E; lia.
      * constructor; [|constructor]. unfold rend. cbn [fst snd]. fold sz. destruct (k_size k <=? off + sz) eqn:E; lia.
  - unfold nostraddle. cbn [k_disk k_whead]. apply Forall_app. split.
    + apply Forall_forall. intros e H. destruct (Hkept e H) as [_ [H1|H1]]; [left; lia|right; lia].
    + constructor; [|constructor]. left. unfold rend. cbn [fst snd]. fold sz. lia.
  - cbn [k_disk]. rewrite find_off_app. rewrite (find_off_none (filter f (k_disk k)) off).
    + cbn [find_off]. now rewrite N.eqb_refl.
    + intros o r0 Hin Heq. subst o. apply Hnot. apply in_map_iff. exists (off, r0). auto.
  - intros o r0 Hin Hc. cbn [k_disk]. apply in_or_app. left. apply filter_In. split; [exact Hin|]. unfold f. cbn [fst snd]. fold off sz in Hc. lia.
  - intros o r0 Hin. cbn [k_disk] in Hin. apply in_app_or in Hin as [Hin|[E|[]]]; [right; apply (Hkept _ Hin)|left; now symmetry].
  - cbn [k_size]. destruct (k_size k <=? off + sz) eqn:E; lia.
Qed.

Definition begin_gc_chunk (k : chunk) (inplace : bool) : chunk :=
  if inplace then mkChunk true (k_disk k) (k_fsize k) (k_wbuf k) 0 (k_size k) true
  else mkChunk true (k_disk k) (k_fsize k) (k_wbuf k) (k_size k) (k_size k) (k_rewriting k).

Lemma begin_gc_eq b dst src : begin_gc_writing b dst src = set_chunk b dst (begin_gc_chunk (chunk_at b dst) (Nat.eqb dst src)).
Proof. unfold begin_gc_writing, begin_gc_chunk. destruct (Nat.eqb dst src); reflexivity. Qed.

Lemma begin_gc_chunk_facts k inplace : gchunk k ->
  let k' := begin_gc_chunk k inplace in
  gchunk k' /\ nostraddle k' /\ k_disk k' = k_disk k /\ k_size k' = k_size k /\
  k_whead k' = (if inplace then 0 else k_size k).
Proof.
  intros (Hw & He & Hnd & Hsz). cbv zeta. unfold begin_gc_chunk, gchunk, nostraddle.
  destruct inplace; cbn [k_wbuf k_exists k_disk k_size k_whead].
  - repeat split; try assumption; try discriminate. apply Forall_forall. intros e _. right. lia.
  - repeat split; try assumption; try discriminate. eapply Forall_impl; [|exact Hsz]. cbv beta. intros e H. now left.
Qed.

Definition end_gc_chunk (k : chunk) : chunk :=
  if k_rewriting k && (k_whead k <? k_size k) then
    mkChunk (negb (k_whead k =? 0)) (filter (fun e => fst e <? k_whead k) (k_disk k)) (k_whead k) (k_wbuf k) (k_whead k) (k_whead k) false
  else mkChunk (k_exists k) (k_disk k) (k_fsize k) (k_wbuf k) (k_whead k) (k_size k) false.

Lemma end_gc_eq b dst : end_gc_writing b dst = set_chunk b dst (end_gc_chunk (chunk_at b dst)).
Proof. unfold end_gc_writing, end_gc_chunk. destruct (_ && _); reflexivity. Qed.

(* ending GC writing keeps every record that lies below the writing head, and afterwards nothing lies above it *)
Lemma end_gc_chunk_facts k : gchunk k -> nostraddle k -> k_whead k <= k_size k ->
  let k' := end_gc_chunk k in
  gchunk k' /\ k_rewriting k' = false /\
  (forall o r0, In (o, r0) (k_disk k) -> o + dsize r0 <= k_whead k -> In (o, r0) (k_disk k')) /\
  (forall e, In e (k_disk k') -> In e (k_disk k)) /\
  ((k_rewriting k = true \/ k_whead k = k_size k) -> Forall (fun e => rend e <= k_whead k') (k_disk k') /\ k_size k' = k_whead k') /\
  k_whead k' = k_whead k.
Proof.
  intros (Hw & He & Hnd & Hsz) Hns Hle. cbv zeta. unfold end_gc_chunk.
  destruct (k_rewriting k && (k_whead k <? k_size k)) eqn:E.
  - unfold gchunk. cbn [k_wbuf k_exists k_disk k_size k_whead k_rewriting].
    assert (Hkeep : forall e, In e (filter (fun e0 => fst e0 <? k_whead k) (k_disk k)) -> In e (k_disk k) /\ rend e <= k_whead k).
    { intros e H. apply filter_In in H as [H1 H2]. split; [exact H1|]. unfold nostraddle in Hns. rewrite Forall_forall in Hns.
      destruct (Hns e H1); [assumption|lia]. }
    split; [|split; [reflexivity|split; [|split; [|split; [|reflexivity]]]]].
    + split; [exact Hw|]. split; [|split].
      * intros Hz. apply negb_false_iff, N.eqb_eq in Hz. apply filter_nil. intros x Hx. lia.
      * clear -Hnd. induction (k_disk k) as [|x l IH]; cbn [filter map]; [constructor|]. cbn [map] in Hnd. inversion Hnd as [|? ? Hni Hnd']; subst.
        destruct (fst x <? k_whead k); cbn [map]; [|auto]. constructor; [|auto]. intros H. apply Hni. apply in_map_iff in H as (y & Hy & Hin). apply filter_In in Hin as [Hin _]. apply in_map_iff. eauto.
      * apply Forall_forall. intros e H. apply (Hkeep e H).
    + intros o r0 Hin Hend. apply filter_In. split; [exact Hin|]. cbn [fst]. pose proof (dsize_pos r0). lia.
    + intros e H. apply (Hkeep e H).
    + intros _. split; [|reflexivity]. apply Forall_forall. intros e H. apply (Hkeep e H).
  - unfold gchunk. cbn [k_wbuf k_exists k_disk k_size k_whead k_rewriting].
    split; [repeat split; assumption|]. split; [reflexivity|]. split; [auto|]. split; [auto|]. split; [|reflexivity].
    intros Hcase. assert (Heq : k_whead k = k_size k).
    { destruct Hcase as [Hr|Hq]; [|exact Hq]. rewrite Hr in E. cbn [andb] in E. lia. }
    split; [|now symmetry]. rewrite Heq. exact Hsz.
Qed.

Section GV.
Variable cf : cfg.
Variable hf : bytes -> N.
Variable K : list bytes.
Hypothesis hf_inj : forall k1 k2, In k1 K -> In k2 K -> hf k1 = hf k2 -> k1 = k2.
Hypothesis cap_pos : 0 < c_splitcap cf.

(* ---- all in-memory hint items belong to keys of K: GC's collision probe never fires ---- *)
Definition IOK (b : bucket) : Prop := forall c it, In it (hint_items b c) -> item_ok hf K it.

Lemma buf_get_coll_false l h key : Forall (item_ok hf K) l -> In key K -> h = hf key -> snd (buf_get_coll l h key) = false.
Proof.
  intros Hok Hk ->. unfold buf_get_coll. destruct (find (fun x => hi_hash x =? hf key) (rev l)) as [x|] eqn:E; [|reflexivity].
  apply find_some in E as [Hin Hh]. apply in_rev in Hin. rewrite Forall_forall in Hok. destruct (Hok x Hin) as [Hx1 Hx2].
  apply N.eqb_eq in Hh. assert (hi_key x = key) by (apply hf_inj; [exact Hx1|exact Hk|congruence]).
  subst key. now rewrite bytes_eqb_refl.
Qed.

Lemma splits_get_coll_false sps h key : (forall sp, In sp sps -> Forall (item_ok hf K) (sp_items sp)) -> In key K -> h = hf key ->
  forall c0, c0 = false -> snd (fst (splits_get_coll sps h key c0)) = false.
Proof.
  intros Hok Hk Hh. induction sps as [|sp sps IH]; intros c0 Hc0; cbn [splits_get_coll]; [exact Hc0|].
  destruct (sp_file sp); [exact Hc0|].
  pose proof (buf_get_coll_false (sp_items sp) h key (Hok sp (or_introl eq_refl)) Hk Hh) as Hb.
  destruct (buf_get_coll (sp_items sp) h key) as [[it|] c]; cbn [snd] in Hb; [exact Hb|].
  apply IH; [intros sp' Hin; apply Hok; now right|exact Hb].
Qed.

Lemma hints_get_coll_false b h key : IOK b -> In key K -> h = hf key -> forall n, snd (hints_get_coll b n h key) = false.
Proof.
  intros Hiok Hk Hh.
  assert (Hsp : forall n c0, c0 = false -> snd (fst (splits_get_coll (rev (hc_splits (hchunk_at b n))) h key c0)) = false).
  { intros n. apply splits_get_coll_false; [|exact Hk|exact Hh].
    intros sp Hin. apply in_rev in Hin. apply Forall_forall. intros x Hx. apply (Hiok n). unfold hint_items, items_of. apply in_concat.
    exists (sp_items sp). split; [apply in_map; exact Hin|exact Hx]. }
  induction n as [|n IH]; cbn [hints_get_coll].
  - specialize (Hsp 0%nat false eq_refl). destruct (splits_get_coll _ h key false) as [[it c] stop]. cbn [fst snd] in Hsp. subst c.
    cbn [orb]. destruct stop; reflexivity.
  - specialize (Hsp (S n) false eq_refl). destruct (splits_get_coll _ h key false) as [[it c] stop]. cbn [fst snd] in Hsp. subst c.
    cbn [orb]. destruct stop; [reflexivity|exact IH].
Qed.

Lemma no_collision b h key : IOK b -> b_ctab b = [] -> In key K -> h = hf key -> snd (get_collision_gc b h key) = false.
Proof. intros Hi Hc Hk Hh. unfold get_collision_gc. rewrite Hc. cbn [ct_has_hash existsb]. now apply hints_get_coll_false. Qed.

Lemma iok_set_item b it c rs : IOK b -> item_ok hf K it -> IOK (hints_set_item cf b it c rs).
Proof. intros Hi Hit c' y Hy. apply hints_set_item_items in Hy as [[_ ->]|Hy]; [exact Hit|now apply (Hi c')]. Qed.
Lemma iok_trydump b c d : IOK b -> IOK (trydump b c d).
Proof. intros Hi c' y Hy. apply trydump_items in Hy. now apply (Hi c'). Qed.
Lemma iok_hints_same b b' : b_hints b' = b_hints b -> IOK b -> IOK b'.
Proof. intros H Hi c y Hy. unfold hint_items, hchunk_at in Hy. rewrite H in Hy. now apply (Hi c). Qed.
Lemma iok_clear b c : IOK b -> IOK (clear_hint_chunk b c).
Proof.
  intros Hi c' y Hy. unfold clear_hint_chunk, hint_items in Hy. rewrite (hchunk_at_updd b _ c c' _ _ _ eq_refl) in Hy.
  destruct (Nat.eqb c c'); [destruct Hy|now apply (Hi c')].
Qed.
End GV.

Section GV2.
Variable cf : cfg.
Variable hf : bytes -> N.
Variable K : list bytes.
Hypothesis hf_inj : forall k1 k2, In k1 K -> In k2 K -> hf k1 = hf k2 -> k1 = k2.
Hypothesis cap_pos : 0 < c_splitcap cf.
Variable b0 : bucket.          (* the bucket when the pass starts *)
Variable begin_ : nat.
Let H0 := b_head b0.

(* where a referenced record may live so that the next GC steps cannot disturb it *)
Definition Prot (D : nat) (W : N) (src : nat) (R : list (N * drec)) (p : pos) (r : drec) : Prop :=
  (p_chunk p <> D /\ p_chunk p <> src) \/
  (p_chunk p = D /\ p_off p + dsize r <= W) \/
  (p_chunk p = src /\ In (p_off p, r) R).

Definition SlotP (st : bucket) (D : nat) (W : N) (src : nat) (R : list (N * drec)) (h : N) (s : slot) : Prop :=
  exists r, log_find st (s_pos s) = Some r /\ hf (d_key r) = h /\ In (d_key r) K /\
            ((0 < s_ver s)%Z -> s_vh s = vhash (d_val r)) /\ ((s_ver s < 0)%Z -> d_val r = [] /\ d_flag r = 0) /\ s_ver s <> 0%Z /\
            Prot D W src R (s_pos s) r.

Definition GI (st : gcst) (src : nat) (R : list (N * drec)) : Prop :=
  let b := gc_b st in let D := gc_dst st in let W := k_whead (chunk_at b D) in
  b_head b = H0 /\ b_ctab b = [] /\
  (forall c, (c = H0 \/ (src < c)%nat) -> chunk_at b c = chunk_at b0 c) /\
  (forall c, (c < H0)%nat -> gchunk (chunk_at b c)) /\
  (D <= src)%nat /\ (src < H0)%nat /\ nostraddle (chunk_at b D) /\ W <= k_size (chunk_at b D) /\
  (forall c, (D < c < src)%nat -> k_disk (chunk_at b c) = [] /\ k_size (chunk_at b c) = 0) /\
  (forall e, In e R -> In e (k_disk (chunk_at b src))) /\ (D = src -> forall e, In e R -> W <= fst e) /\ spaced R /\
  (forall c e, (c < H0)%nat -> In e (k_disk (chunk_at b c)) -> rend e <= c_filemax cf /\ In (d_key (snd e)) K) /\
  IOK hf K b /\
  (forall h s, tree_get_slot b h = Some s -> SlotP b D W src R h s) /\
  (forall k, In k K -> abs hf b k = abs hf b0 k).

Lemma log_find_gchunk b p : gchunk (chunk_at b (p_chunk p)) -> log_find b p = find_off (k_disk (chunk_at b (p_chunk p))) (p_off p).
Proof. intros (Hw & _). unfold log_find, all_recs. now rewrite Hw, app_nil_r. Qed.

Lemma log_find_set_other b c k p : p_chunk p <> c -> log_find (set_chunk b c k) p = log_find b p.
Proof. intros H. unfold log_find. rewrite chunk_at_set_other by congruence. reflexivity. Qed.

(* a record is dropped: nothing changes but the statistics *)
Lemma gi_drop st gs' src off r R' :
  GI st src ((off, r) :: R') ->
  (forall h s, tree_get_slot (gc_b st) h = Some s -> s_pos s <> mkPos src off) ->
  GI (mkGC (gc_b st) (gc_dst st) gs') src R'.
Proof.
  intros (G1 & G2 & G3 & G4 & G5 & G6 & G7 & G8 & G9 & G10 & G11 & G12 & G13 & G14 & G15 & G16) Hnone.
  unfold GI. cbn [gc_b gc_dst]. cbv zeta in *.
  split; [exact G1|]. split; [exact G2|]. split; [exact G3|]. split; [exact G4|]. split; [exact G5|]. split; [exact G6|].
  split; [exact G7|]. split; [exact G8|]. split; [exact G9|]. split; [intros e He; apply G10; now right|].
  split; [intros E e He; apply (G11 E); now right|]. split; [unfold spaced in *; now inversion G12|].
  split; [exact G13|]. split; [exact G14|]. split; [|exact G16].
  intros h s Hs. destruct (G15 h s Hs) as (r0 & L & A1 & A2 & A3 & A4 & A5 & P). exists r0. repeat split; try assumption.
  destruct P as [P|[P|[Pc Pin]]]; [now left|right; now left|]. right. right. split; [exact Pc|].
  destruct Pin as [E|Hin]; [|exact Hin]. exfalso. apply (Hnone h s Hs). injection E as E1 E2. destruct (s_pos s). cbn in *. congruence.
Qed.
End GV2.
