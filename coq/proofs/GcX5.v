(* Restart after GC, part 5: a pass re-establishes the WHOLE invariant of C02 (XInv), so a restart -- with any
   index files removed -- after any number of passes preserves every read; histories mixing client
   operations, restarts and GC passes. *)
From Coq Require Import NArith ZArith List Bool Lia ZifyN ZifyNat ZifyBool Sorting.Sorted FMapPositive.
From GB Require Import Consts Words Hash HintFile HTree Compress Bucket BucketOpen Gc CheckL2 RefMap
     BucketBasics Refine GcTouch LogMono CollideProofs Upd Restart1 Restart2 Restart3 GcSplit GcSplitProofs GcView GcX1 GcX2 GcX3 GcX4.
Import ListNotations.
Open Scope N_scope.

Section A.
Variable cf : cfg.
Variable hf : bytes -> N.
Variable K : list bytes.
Hypothesis hf_inj : forall k1 k2, In k1 K -> In k2 K -> hf k1 = hf k2 -> k1 = k2.
Hypothesis cap_pos : 0 < c_splitcap cf.

(* the value hash a slot carries is the hash of the value of a positive record it points at *)
Lemma slot_vh b m : Rel hf K b m -> XInv hf K b -> NL hf b ->
  forall h s0 r, tree_get_slot b h = Some s0 -> log_find b (s_pos s0) = Some r -> (0 < d_ver r)%Z -> s_vh s0 = vhash (d_val r).
Proof.
  intros HR (X1 & _ & _ & _ & X5 & _) HNL h s0 r Hs L Hpos.
  assert (Hsp : forall c, spaced (recs_at b c)) by (intros c; apply (X1 c)).
  pose proof HR as [(_ & _ & Hslots) _]. destruct (Hslots h s0 Hs) as (r1 & L1 & Hh & _). rewrite L in L1. injection L1 as <-.
  destruct (slot_max_before hf K b m HR Hsp X5 HNL h s0 r Hs L Hh) as (_ & Pos & Neg).
  destruct (Z.lt_trichotomy 0 (s_ver s0)) as [Hp|[Hz|Hn]].
  - now apply Pos.
  - exfalso. destruct (Hslots h s0 Hs) as (_ & _ & _ & _ & _ & _ & Hv0). congruence.
  - exfalso. now apply (Neg Hn).
Qed.

Definition MDok (b : bucket) : Prop := hid_le (O, 0%Z) (b_maxdumped b).

Theorem gc_pass_xinv b m begin_ end_ :
  Rel hf K b m -> XInv hf K b -> FMok cf b -> NLZ hf b -> MDok b -> (begin_ <= end_ < b_head b)%nat ->
  let b' := fst (gc_pass cf hf b begin_ end_ false) in
  Rel hf K b' m /\ XInv hf K b' /\ FMok cf b' /\ NLZ hf b' /\ MDok b' /\ b_head b' = b_head b.
Proof.
  intros HR HX HF [HNL HNZ] HMD Hrange. cbv zeta.
  pose proof (xinv_gpre cf hf K b HX HF) as HP.
  pose proof (gc_pass_view cf hf K hf_inj cap_pos b m begin_ end_ HR HP Hrange) as HR'.
  destruct (gc_pass_reclaims cf hf K hf_inj cap_pos b m begin_ end_ HR HP Hrange) as (D & (Hd1 & Hd2) & Hgap & Hcur & Hemp & Hpre & Hsplit & Hg' & HP' & HD). cbv zeta in Hgap, Hcur, Hemp, Hpre, Hsplit, Hg', HP', HD.
  destruct (gc_pass_touches_range cf hf K hf_inj cap_pos b m begin_ end_ HR HP Hrange) as (_ & _ & [Hhead Hunt]). cbv zeta in Hhead, Hunt.
  destruct (gc_pass_xfacts cf hf K hf_inj cap_pos b m begin_ end_ HR HP Hrange) as (Fabsr & Fnone & Fpos & Ftomb & Fsub). cbv zeta in Fabsr, Fnone, Fpos, Ftomb, Fsub.
  fold (gc_end_state cf hf b begin_ end_) in HD. rewrite <- HD in Fpos, Ftomb.
  set (dst0 := pick_dst cf (before_bucket cf b false) begin_ begin_) in *.
  set (W0 := if Nat.eqb dst0 begin_ then 0 else k_size (chunk_at b dst0)) in *.
  set (b' := fst (gc_pass cf hf b begin_ end_ false)) in *.
  pose proof HX as (X1 & X2 & X3 & X4 & X5 & X6).
  (* ---- files and hints ---- *)
  assert (Hfiles : (forall c, okc hf K b' c) /\ b_treeid b' = (O, 0%Z) /\ MDok b').
  { destruct (gc_pass_start_ga cf hf K cap_pos b m begin_ end_ HR HP Hrange) as (HA0 & Hs0 & _ & Hdisk0 & Htree0 & HW0 & Hoth0). cbv zeta in HA0, Hs0, Hdisk0, Htree0, HW0, Hoth0.
    fold dst0 W0 in HA0, Hs0, Hdisk0, Htree0, HW0, Hoth0.
    set (st0 := mkGC (begin_gc_writing (before_bucket cf b false) dst0 begin_) dst0 gc0) in *.
    assert (Hsp : forall c, (c < b_head b)%nat -> spaced (k_disk (chunk_at b c))) by (intros c Hc; apply (proj1 HP c Hc)).
    assert (Hvh0 := slot_vh b m HR HX HNL).
    assert (Hsps0 : forall c, sps_at (gc_b st0) c = sps_at b c) by (intros c; unfold st0; cbn [gc_b]; rewrite begin_gc_eq; reflexivity).
    assert (Hd0 : chunk_at (gc_b st0) dst0 = begin_gc_chunk (chunk_at b dst0) (Nat.eqb dst0 begin_)).
    { unfold st0. cbn [gc_b]. rewrite begin_gc_eq, chunk_at_set_same. reflexivity. }
    assert (Hwb : forall c, (c < b_head b)%nat -> k_wbuf (chunk_at b c) = []) by (intros c Hc; apply X2; lia).
    assert (HQ0 : QS hf K b dst0 st0 begin_).
    { unfold QS, CC. cbv zeta. cbn [gc_dst st0]. split; [|split; [apply Hsps0|split]].
      - split; [intros c Hc; rewrite Hoth0 by lia; split; [reflexivity|apply Hsps0]|]. split; [intros c _; apply Hsps0|]. split; [intros c Hc; lia|].
        split.
        { rewrite Hd0. destruct (Nat.eqb dst0 begin_).
          - apply (begin_inplace_keeps cf hf K cap_pos _ dst0 (X1 dst0) (Hwb dst0 ltac:(lia))).
          - apply (begin_append_keeps cf hf K cap_pos _ _ dst0 (X1 dst0) (Hwb dst0 ltac:(lia)) (X4 dst0)). }
        split; [intros c Hc; unfold okc; rewrite Hoth0 by lia; rewrite Hsps0; split; [apply X1|apply X4]|].
        split; [unfold st0; cbn [gc_b]; rewrite begin_gc_eq; reflexivity|unfold st0; cbn [gc_b]; rewrite begin_gc_eq; exact HMD].
      - intros Hne. split; [|apply Hoth0; congruence]. rewrite Hd0, Hsps0. replace (Nat.eqb dst0 begin_) with false by (symmetry; apply Nat.eqb_neq; exact Hne).
        apply (begin_append_keeps cf hf K cap_pos _ _ dst0 (X1 dst0) (Hwb dst0 ltac:(lia)) (X4 dst0)).
      - intros Ed. split; [exact (eq_trans HW0 ltac:(unfold W0; rewrite Ed, Nat.eqb_refl; reflexivity))|]. split.
        + rewrite Hdisk0. unfold all_recs. rewrite (Hwb begin_ ltac:(lia)), app_nil_r. reflexivity.
        + rewrite <- Ed, Hd0. unfold begin_gc_chunk. destruct (Nat.eqb dst0 begin_); reflexivity. }
    destruct (ga_files cf hf K hf_inj cap_pos b begin_ dst0 W0 (end_ - begin_) begin_ st0 HA0 ltac:(lia) Hsp Hs0) as [HAe _]. cbv zeta in HAe.
    pose proof (qc_files cf hf K hf_inj cap_pos b begin_ end_ dst0 W0 X1 X4 Hvh0 Hd1 (end_ - begin_) begin_ st0 HA0 HQ0 ltac:(lia) ltac:(lia) ltac:(lia) Hsp Hs0) as HQe.
    replace (S (end_ - begin_)) with (S end_ - begin_)%nat in HAe, HQe by lia. replace (begin_ + (end_ - begin_))%nat with end_ in HAe, HQe by lia.
    destruct (qc_final cf hf K cap_pos b begin_ end_ dst0 W0 X1 X4 Hvh0 Hd1 _ HAe HQe) as (Q1 & Q2 & Q3). cbv zeta in Q1, Q2, Q3.
    unfold b', gc_pass. cbn [fst]. fold dst0 st0. split; [exact Q1|split; [exact Q2|exact Q3]]. }
  destruct Hfiles as (Hokc & Htid' & HMD').
  (* ---- records ---- *)
  assert (Hrb : forall c, (c < b_head b)%nat -> recs_at b c = k_disk (chunk_at b c)) by (intros c Hc; unfold recs_at, all_recs; rewrite X2 by lia; apply app_nil_r).
  assert (Hrb' : forall c, (c < b_head b)%nat -> recs_at b' c = k_disk (chunk_at b' c)) by (intros c Hc; unfold recs_at, all_recs; rewrite (proj1 (Hg' c Hc)); apply app_nil_r).
  assert (Hsame : forall c, (c < dst0 \/ end_ < c)%nat -> chunk_at b' c = chunk_at b c) by (intros c Hc; apply Hunt; lia).
  assert (HX1' : forall c, cst (chunk_at b' c)) by (intros c; apply (Hokc c)).
  assert (Hsp' : forall c, spaced (recs_at b' c)) by (intros c; apply (HX1' c)).
  assert (Hspb : forall c, spaced (recs_at b c)) by (intros c; apply (X1 c)).
  (* ---- the hypotheses of the positional argument ---- *)
  assert (T_out : forall c, (c < dst0 \/ end_ < c)%nat -> recs_at b' c = recs_at b c) by (intros c Hc; unfold recs_at; now rewrite Hsame).
  assert (T_gap : forall c, (dst0 < c < begin_)%nat -> recs_at b c = []) by (intros c Hc; rewrite Hrb by lia; now apply Hgap).
  assert (T_pre : forall e, rend e <= W0 -> (In e (recs_at b' dst0) <-> In e (recs_at b dst0))) by (intros e He; rewrite Hrb', Hrb by lia; now apply Hpre).
  assert (T_split : forall e, In e (recs_at b' dst0) -> rend e <= W0 \/ W0 <= fst e) by (intros e He; rewrite Hrb' in He by lia; now apply Hsplit).
  assert (T_old0 : (dst0 < begin_)%nat -> forall e, In e (recs_at b dst0) -> rend e <= W0).
  { intros Hlt e He. unfold W0. replace (Nat.eqb dst0 begin_) with false by (symmetry; apply Nat.eqb_neq; lia).
    destruct (X1 dst0) as (_ & _ & Hall & _ & Hsz & _). rewrite Forall_forall in Hall. specialize (Hall e He). cbv beta in Hall. unfold rend. lia. }
  assert (T_reg : forall c e, (dst0 <= c <= D)%nat -> In e (recs_at b' c) -> (c = dst0 -> W0 <= fst e) -> cur_or_tomb hf begin_ b' c e) by (intros c e Hc He; rewrite Hrb' in He by lia; now apply Hcur).
  assert (T_emp : forall c, (D < c <= end_)%nat -> recs_at b' c = []) by (intros c Hc; rewrite Hrb' by lia; apply (Hemp c Hc)).
  assert (T_tomb : (0 < begin_)%nat -> forall c e, (begin_ <= c <= end_)%nat -> In e (recs_at b c) ->
     tree_get_slot b (hf (d_key (snd e))) = None -> (d_ver (snd e) < 0)%Z ->
     exists c' e', In e' (recs_at b' c') /\ (dst0 <= c' <= D)%nat /\ (c' = dst0 -> W0 <= fst e') /\ hf (d_key (snd e')) = hf (d_key (snd e))).
  { intros Hb c e Hc He Hn Hv. rewrite Hrb in He by lia. destruct (Ftomb Hb c e Hc He Hn Hv) as (c' & e' & H1 & H2 & H3 & H4). exists c', e'. rewrite Hrb' by lia. auto. }
  assert (T_sub : forall c e, In e (recs_at b' c) -> exists c0 e0, In e0 (recs_at b c0) /\ snd e0 = snd e).
  { intros c e He. destruct (Nat.lt_ge_cases c (b_head b)) as [Hc|Hc].
    - rewrite Hrb' in He by exact Hc. destruct (Fsub c e Hc He) as (c0 & e0 & Hc0 & Hin0 & Hs0). exists c0, e0. rewrite Hrb by exact Hc0. auto.
    - exists c, e. rewrite T_out in He by (right; lia). auto. }
  assert (HW0z : dst0 = begin_ -> W0 = 0) by (intros E; unfold W0; now rewrite E, Nat.eqb_refl).
  assert (Hrg : (dst0 <= begin_ /\ begin_ <= end_ < b_head b /\ dst0 <= D <= end_)%nat) by lia.
  split; [exact HR'|]. split; [|split; [|split; [|split; [exact HMD'|exact Hhead]]]].
  - (* XInv *)
    split; [exact HX1'|]. split; [|split; [|split; [intros c; apply (Hokc c)|split]]].
    + intros c Hne. rewrite Hhead in Hne. destruct (Nat.lt_ge_cases c (b_head b)) as [Hc|Hc]; [apply (Hg' c Hc)|]. rewrite Hsame by (right; lia). apply X2. exact Hne.
    + intros c e He. destruct (T_sub c e He) as (c0 & e0 & Hin0 & <-). now apply (X3 c0 e0).
    + rewrite Hhead. intros h. apply (tv_after hf K b b' m begin_ end_ dst0 D W0 Hhead HR HR' Hspb Hsp' X5 HNL HNZ Hrg HW0z T_out T_gap T_pre T_split T_old0 T_reg T_emp Fabsr Fnone Fpos T_tomb T_sub).
    + rewrite Htid'. exact HMD'.
  - (* FMok *)
    intros c e Hc He. rewrite Hhead in Hc. apply (proj1 (proj2 HP') c e); [rewrite Hhead; exact Hc|exact He].
  - split.
    + apply (nl_after hf K b b' m begin_ end_ dst0 D W0 Hhead HR HR' Hspb Hsp' X5 HNL Hrg HW0z T_out T_gap T_pre T_split T_old0 T_reg T_emp Fabsr Fnone Fpos T_tomb T_sub).
    + apply (nz_after b b' HNZ T_sub).
Qed.
End A.
