(* Round-trip and layout proofs for the data-record model. *)
From Coq Require Import NArith ZArith List Bool Lia ZifyN ZifyNat ZifyBool.
From GB Require Import Consts Words Hash Record Bits.
Import ListNotations.
Open Scope N_scope.

Ltac modlia := zify; Z.div_mod_to_equations; lia.

(* ---------------------------------------------------------- list helpers *)
Lemma lenN_app {A} (a b : list A) : lenN (a ++ b) = lenN a + lenN b.
Proof. rewrite !lenN_length, app_length. lia. Qed.

Lemma takeN_app_len {A} (a b : list A) : takeN (lenN a) (a ++ b) = a.
Proof.
  rewrite takeN_firstn, lenN_length, Nat2N.id.
  rewrite firstn_app, firstn_all, PeanoNat.Nat.sub_diag. cbn [firstn]. apply app_nil_r.
Qed.
Lemma dropN_app_len {A} (a b : list A) : dropN (lenN a) (a ++ b) = b.
Proof.
  rewrite dropN_skipn, lenN_length, Nat2N.id.
  rewrite skipn_app, skipn_all, PeanoNat.Nat.sub_diag. reflexivity.
Qed.
Lemma takeN_app_exact {A} (a b : list A) n : n = lenN a -> takeN n (a ++ b) = a.
Proof. intros ->. apply takeN_app_len. Qed.
Lemma dropN_app_exact {A} (a b : list A) n : n = lenN a -> dropN n (a ++ b) = b.
Proof. intros ->. apply dropN_app_len. Qed.

Lemma lenN_zeros n : lenN (zeros n) = N.of_nat n.
Proof. induction n as [|n IH]; cbn [zeros lenN]; [reflexivity|]. rewrite IH. lia. Qed.

Lemma allbytes_app a b : allbytes (a ++ b) = allbytes a && allbytes b.
Proof. unfold allbytes. apply forallb_app. Qed.

(* ------------------------------------------------------------- words *)
Lemma rd32_le32 x : x < 4294967296 ->
  rd32 (w8 x) (w8 (N.shiftr x 8)) (w8 (N.shiftr x 16)) (w8 (N.shiftr x 24)) = x.
Proof.
  intros Hx. unfold rd32. rewrite !w8_mod, !N.shiftr_div_pow2.
  change (2 ^ 8) with 256. change (2 ^ 16) with 65536. change (2 ^ 24) with 16777216. modlia.
Qed.

Lemma lenN_le32 x : lenN (le32 x) = 4.
Proof. reflexivity. Qed.

Lemma i32_roundtrip z : (-2147483648 <= z < 2147483648)%Z -> to_i32 (of_i32 z) = z.
Proof.
  intros Hz. unfold to_i32, of_i32.
  destruct (Z.to_N (z mod 4294967296) <? 2147483648) eqn:E.
  - apply N.ltb_lt in E. rewrite Z2N.id by (apply Z.mod_pos_bound; lia). modlia.
  - apply N.ltb_ge in E. rewrite Z2N.id by (apply Z.mod_pos_bound; lia). modlia.
Qed.

Lemma of_i32_lt z : of_i32 z < 4294967296.
Proof. unfold of_i32. pose proof (Z.mod_pos_bound z 4294967296 ltac:(lia)). lia. Qed.

(* ------------------------------------------------------------- sizes *)
Lemma round_up_arith n : n + 255 < 4294967296 -> round_up n = (n + 255) / 256 * 256.
Proof.
  intros H. unfold round_up. change sizes_round_add with 255. change sizes_round_shift with 8.
  rewrite (w32_id (n + 255)) by exact H.
  rewrite N.shiftl_mul_pow2, N.shiftr_div_pow2. change (2 ^ 8) with 256.
  apply w32_id. modlia.
Qed.

Definition valid_rec (c : rcfg) (r : rec) : Prop :=
  allbytes (rkey r) = true /\ allbytes (rval r) = true /\
  1 <= lenN (rkey r) <= max_key c /\ lenN (rval r) <= body_max c /\
  rflag r < 4294967296 /\ rts r < 4294967296 /\
  (-2147483648 <= rver r < 2147483648)%Z /\
  max_key c + body_max c + 279 < 4294967296.

Lemma rsize_arith c r : valid_rec c r ->
  rsize r = (24 + lenN (rkey r) + lenN (rval r) + 255) / 256 * 256 /\
  rec_size_real (lenN (rkey r)) (lenN (rval r)) = 24 + lenN (rkey r) + lenN (rval r).
Proof.
  intros (_ & _ & Hk & Hv & _ & _ & _ & Hc).
  assert (E : rec_size_real (lenN (rkey r)) (lenN (rval r)) = 24 + lenN (rkey r) + lenN (rval r)).
  { unfold rec_size_real. change sizes_header with 24. apply w32_id. lia. }
  split; [|exact E]. unfold rsize, rec_size. rewrite E. apply round_up_arith. lia.
Qed.

Lemma lenN_header_tail ts flag ver ksz vsz : lenN (header_tail ts flag ver ksz vsz) = 20.
Proof. reflexivity. Qed.

Lemma lenN_encode_nopad r : lenN (encode_nopad r) = 24 + lenN (rkey r) + lenN (rval r).
Proof.
  unfold encode_nopad. rewrite !lenN_app, lenN_le32, lenN_header_tail. lia.
Qed.

(* layout: a whole number of 256-byte blocks *)
Lemma encode_len c r : valid_rec c r ->
  lenN (encode r) = rsize r /\ rsize r mod 256 = 0 /\
  rsize r = 256 * ((24 + lenN (rkey r) + lenN (rval r) + 255) / 256) /\ 256 <= rsize r.
Proof.
  intros Hv. destruct (rsize_arith c r Hv) as [Hs Hr].
  pose proof Hv as (_ & _ & Hk & _).
  unfold encode. rewrite lenN_app, lenN_zeros, lenN_encode_nopad, Hr.
  fold (rec_size (lenN (rkey r)) (lenN (rval r))). fold (rsize r). rewrite Hs.
  pose proof Hv as (_ & _ & _ & Hvl & _ & _ & _ & Hc).
  set (n := 24 + lenN (rkey r) + lenN (rval r)) in *.
  assert (Hn : 25 <= n) by lia. assert (Hn2 : n + 255 < 4294967296) by lia.
  rewrite (round_up_arith n Hn2). clearbody n. rewrite N2Nat.id.
  repeat split; modlia.
Qed.

(* ------------------------------------------------------------- header *)
Lemma decode_header_encode crc ts flag ver ksz vsz rest :
  crc < 4294967296 -> ts < 4294967296 -> flag < 4294967296 -> ksz < 4294967296 -> vsz < 4294967296 ->
  (-2147483648 <= ver < 2147483648)%Z ->
  decode_header ((le32 crc ++ header_tail ts flag ver ksz vsz) ++ rest) =
  Some (mkHdr crc ts flag ver ksz vsz).
Proof.
  intros Hc Ht Hf Hk Hv Hver. unfold header_tail, le32. cbn [app decode_header].
  rewrite !rd32_le32 by (assumption || apply of_i32_lt).
  now rewrite i32_roundtrip.
Qed.

Lemma crc32_lt bs : crc32 bs < 4294967296.
Proof.
  unfold crc32. change crc_final_xor with 0xFFFFFFFF. apply lxor_lt32; [|reflexivity].
  unfold crc_update.
  assert (G : forall l c, c < 4294967296 -> fold_left crc_step l c < 4294967296).
  { induction l as [|b l IH]; intros c Hc; cbn [fold_left]; [exact Hc|]. apply IH.
    unfold crc_step. apply lxor_lt32; [|now apply shiftr_lt32].
    set (i := N.to_nat _).
    assert (Hall : forallb (fun x => x <? 4294967296) crc_table = true) by (vm_compute; reflexivity).
    rewrite forallb_forall in Hall.
    destruct (Compare_dec.lt_dec i (length crc_table)) as [Hi|Hi].
    - apply N.ltb_lt, Hall, nth_In, Hi.
    - rewrite nth_overflow by lia. reflexivity. }
  apply G. reflexivity.
Qed.

(* the parts of an encoded record, as seen by the readers *)
Lemma encode_shape c r post : valid_rec c r ->
  exists pad,
    encode r ++ post =
      (le32 (rec_crc r) ++ header_tail (rts r) (rflag r) (rver r) (lenN (rkey r)) (lenN (rval r)))
      ++ (rkey r ++ rval r ++ pad ++ post)
    /\ lenN (le32 (rec_crc r) ++ header_tail (rts r) (rflag r) (rver r) (lenN (rkey r)) (lenN (rval r))) = 24
    /\ 24 + lenN (rkey r) + lenN (rval r) + lenN pad = rsize r.
Proof.
  intros Hv. pose proof Hv as (_ & _ & Hk & Hvl & _ & _ & _ & Hc).
  destruct (rsize_arith c r Hv) as [Hs Hr].
  exists (zeros (N.to_nat (round_up (rec_size_real (lenN (rkey r)) (lenN (rval r)))
                            - rec_size_real (lenN (rkey r)) (lenN (rval r))))).
  repeat split.
  - unfold encode, encode_nopad. rewrite !(w32_id (lenN _)) by lia. now rewrite <- !app_assoc.
  - rewrite lenN_zeros, Hr, Hs, N2Nat.id.
    set (n := 24 + lenN (rkey r) + lenN (rval r)) in *.
    assert (Hn2 : n + 255 < 4294967296) by lia.
    rewrite (round_up_arith n Hn2). clearbody n. modlia.
Qed.

Lemma rec_crc_ok c r : valid_rec c r ->
  hdr_crc_ok (mkHdr (rec_crc r) (rts r) (rflag r) (rver r) (lenN (rkey r)) (lenN (rval r))) (rkey r) (rval r) = true.
Proof.
  intros (_ & _ & Hk & Hvl & _ & _ & _ & Hc). unfold hdr_crc_ok, rec_crc. cbn [h_crc h_ts h_flag h_ver h_ksz h_vsz].
  rewrite !(w32_id (lenN _)) by lia. apply N.eqb_refl.
Qed.

(* ---------------------------------------------------- positional read *)
Lemma read_at_encode c r post : valid_rec c r -> read_at c (encode r ++ post) = RdOK r.
Proof.
  intros Hv. pose proof Hv as (_ & _ & Hk & Hvl & Hf & Ht & Hver & Hc).
  destruct (encode_shape c r post Hv) as (pad & Es & Hl & _).
  unfold read_at. rewrite Es.
  rewrite decode_header_encode; try assumption; try lia; [|apply crc32_lt].
  cbn [h_ksz h_vsz h_crc h_ts h_flag h_ver].
  unfold valid_ksz, valid_vsz.
  replace (lenN (rkey r) =? 0) with false by (symmetry; apply N.eqb_neq; lia).
  replace (lenN (rkey r) <=? max_key c) with true by (symmetry; apply N.leb_le; lia).
  replace (lenN (rval r) <=? body_max c) with true by (symmetry; apply N.leb_le; lia).
  cbn [negb andb].
  change rec_header_size with 24. rewrite (dropN_app_exact _ _ 24) by (symmetry; exact Hl).
  replace (rkey r ++ rval r ++ pad ++ post) with ((rkey r ++ rval r) ++ pad ++ post) by now rewrite <- app_assoc.
  rewrite <- lenN_app, takeN_app_len, N.ltb_irrefl.
  rewrite takeN_app_len, dropN_app_len, (rec_crc_ok c r Hv). destruct r; reflexivity.
Qed.

(* ------------------------------------------------------ sequential scan *)
Lemma next_nonempty c s off : s <> [] ->
  next c s off =
    match decode_header s with
    | None => NxErr
    | Some h =>
      if negb (valid_ksz c (h_ksz h)) || negb (valid_vsz c (h_vsz h)) then
        of_nv (next_valid (nv_fuel s) c s off 0)
      else
        let body := dropN rec_header_size s in
        let key := takeN (h_ksz h) body in
        if lenN key <? h_ksz h then NxErr
        else
          let val := takeN (h_vsz h) (dropN (h_ksz h) body) in
          if lenN val <? h_vsz h then NxErr
          else
            let recsize := rec_size (h_ksz h) (h_vsz h) in
            if hdr_crc_ok h key val then
              NxRec (mkRec key val (h_flag h) (h_ver h) (h_ts h)) off 0 (dropN recsize s) (off + recsize)
            else of_nv (next_valid (nv_fuel s) c s off 0)
    end.
Proof. destruct s; [congruence|reflexivity]. Qed.

Lemma next_encode c r post off : valid_rec c r ->
  next c (encode r ++ post) off = NxRec r off 0 post (off + rsize r).
Proof.
  intros Hv. pose proof Hv as (_ & _ & Hk & Hvl & Hf & Ht & Hver & Hc).
  destruct (encode_len c r Hv) as (Hlen & _ & _ & Hge).
  assert (Hne : encode r ++ post <> []).
  { intros E. apply (f_equal lenN) in E. rewrite lenN_app, Hlen in E. cbn [lenN] in E. lia. }
  assert (Hdrop : dropN (rsize r) (encode r ++ post) = post) by (apply dropN_app_exact; now rewrite Hlen).
  destruct (encode_shape c r post Hv) as (pad & Es & Hl & Hsz).
  assert (Hdec : decode_header (encode r ++ post) =
                 Some (mkHdr (rec_crc r) (rts r) (rflag r) (rver r) (lenN (rkey r)) (lenN (rval r)))).
  { rewrite Es. apply decode_header_encode; try assumption; try lia. apply crc32_lt. }
  assert (Hbody : dropN 24 (encode r ++ post) = rkey r ++ rval r ++ pad ++ post).
  { rewrite Es. apply dropN_app_exact. symmetry. exact Hl. }
  rewrite (next_nonempty c _ off Hne), Hdec.
  cbn [h_ksz h_vsz h_crc h_ts h_flag h_ver].
  unfold valid_ksz, valid_vsz.
  replace (lenN (rkey r) =? 0) with false by (symmetry; apply N.eqb_neq; lia).
  replace (lenN (rkey r) <=? max_key c) with true by (symmetry; apply N.leb_le; lia).
  replace (lenN (rval r) <=? body_max c) with true by (symmetry; apply N.leb_le; lia).
  cbn [negb andb orb].
  change rec_header_size with 24. cbv zeta. rewrite Hbody.
  rewrite takeN_app_len, N.ltb_irrefl, dropN_app_len, takeN_app_len, N.ltb_irrefl.
  rewrite (rec_crc_ok c r Hv).
  fold (rsize r). rewrite Hdrop. destruct r; reflexivity.
Qed.

Fixpoint with_offsets (rs : list rec) (off : N) : list (N * rec * N) :=
  match rs with [] => [] | r :: t => (off, r, 0) :: with_offsets t (off + rsize r) end.

Lemma scan_clean_gen c rs : Forall (valid_rec c) rs ->
  forall fuel off, (length rs < fuel)%nat ->
  scan fuel c (concat (map encode rs)) off = (with_offsets rs off, ScanOK).
Proof.
  induction rs as [|r rs IH]; intros HF fuel off Hfuel.
  - destruct fuel; [cbn [length] in Hfuel; lia|]. reflexivity.
  - destruct fuel; [cbn [length] in Hfuel; lia|].
    inversion HF as [|? ? Hr Hrs]; subst.
    cbn [map concat scan with_offsets]. rewrite next_encode by exact Hr.
    rewrite IH; [reflexivity|exact Hrs|cbn [length] in Hfuel; lia].
Qed.

Lemma concat_encode_blocks c rs : Forall (valid_rec c) rs ->
  (length rs <= length (concat (map encode rs)) / 256)%nat.
Proof.
  induction rs as [|r rs IH]; intros HF; [cbn; lia|].
  inversion HF as [|? ? Hr Hrs]; subst. specialize (IH Hrs).
  cbn [map concat length]. rewrite app_length.
  destruct (encode_len c r Hr) as (Hlen & _ & _ & Hge).
  rewrite lenN_length in Hlen.
  assert (256 <= length (encode r))%nat by lia.
  transitivity ((256 + length (concat (map encode rs))) / 256)%nat.
  - replace (256 + length (concat (map encode rs)))%nat with (length (concat (map encode rs)) + 1 * 256)%nat by lia.
    rewrite PeanoNat.Nat.div_add by lia. lia.
  - apply PeanoNat.Nat.div_le_mono; lia.
Qed.

Lemma scan_file_clean c rs : Forall (valid_rec c) rs ->
  scan_file c (concat (map encode rs)) 0 = (with_offsets rs 0, ScanOK).
Proof.
  intros HF. unfold scan_file. cbn [dropN].
  replace (dropN 0 (concat (map encode rs))) with (concat (map encode rs)) by (destruct (concat _); reflexivity).
  apply scan_clean_gen; [exact HF|]. pose proof (concat_encode_blocks c rs HF). lia.
Qed.

(* soundness: whatever read_at returns carries a verified checksum and sizes within the limits *)
Lemma read_at_sound c s r : read_at c s = RdOK r ->
  exists h, decode_header s = Some h /\ hdr_crc_ok h (rkey r) (rval r) = true /\
            valid_ksz c (h_ksz h) = true /\ valid_vsz c (h_vsz h) = true /\
            rflag r = h_flag h /\ rver r = h_ver h /\ rts r = h_ts h /\
            rkey r ++ rval r = takeN (h_ksz h + h_vsz h) (dropN rec_header_size s) /\
            lenN (rkey r ++ rval r) = h_ksz h + h_vsz h.
Proof.
  unfold read_at. destruct (decode_header s) as [h|]; [|discriminate].
  destruct (valid_ksz c (h_ksz h)) eqn:Ek; cbn [negb]; [|discriminate].
  destruct (valid_vsz c (h_vsz h)) eqn:Ev; cbn [negb]; [|discriminate].
  set (kv := takeN (h_ksz h + h_vsz h) (dropN rec_header_size s)).
  destruct (lenN kv <? h_ksz h + h_vsz h) eqn:El; [discriminate|].
  destruct (hdr_crc_ok h (takeN (h_ksz h) kv) (dropN (h_ksz h) kv)) eqn:Ec; [|discriminate].
  intros E. injection E as <-. cbn [rkey rval rflag rver rts].
  exists h. repeat split; try assumption; try reflexivity.
  - rewrite takeN_firstn, dropN_skipn. apply firstn_skipn.
  - rewrite takeN_firstn, dropN_skipn, firstn_skipn.
    apply N.ltb_ge in El. apply N.le_antisymm; [|exact El].
    unfold kv. rewrite takeN_firstn, lenN_length, firstn_length. lia.
Qed.
