(* C10: with the memory-safe build and the stored-block length check, the safe C decompressor entry
   point never touches memory outside its buffers, for every byte string. *)
From Coq Require Import NArith ZArith List Bool Lia.
From GB Require Import Consts Words Qlz.
Import ListNotations.
Open Scope Z_scope.

Lemma sb_some src i : 0 <= i < zlen src -> exists b, sb src i = Some b.
Proof.
  intros [H0 H1]. unfold sb.
  replace (i <? 0) with false by (symmetry; apply Z.ltb_ge; lia).
  replace (zlen src <=? i) with false by (symmetry; apply Z.leb_gt; lia). cbn. eauto.
Qed.

Lemma read32_some src i : 0 <= i -> i + 3 < zlen src -> exists v, read32 src i = Some v /\ 0 <= v.
Proof.
  intros H0 H3. unfold read32.
  destruct (sb_some src i ltac:(lia)) as [a Ea]. destruct (sb_some src (i + 1) ltac:(lia)) as [b Eb].
  destruct (sb_some src (i + 2) ltac:(lia)) as [c Ec]. destruct (sb_some src (i + 3) ltac:(lia)) as [d Ed].
  rewrite Ea, Eb, Ec, Ed. eexists. split; [reflexivity|].
  unfold sb in *. repeat match goal with H : (if ?c then None else Some _) = Some _ |- _ => destruct c; [discriminate|injection H as <-] end.
  lia.
Qed.

Lemma bitlut_range x : 0 <= bitlut x <= 4.
Proof.
  unfold bitlut. set (k := Z.to_nat (Z.land x 15)).
  assert (Hall : forall n, (n < 16)%nat -> 0 <= nth n [4; 0; 1; 0; 2; 0; 1; 0; 3; 0; 1; 0; 2; 0; 1; 0] 0 <= 4).
  { intros n Hn. do 16 (destruct n as [|n]; [cbn; lia|]). lia. }
  destruct (Compare_dec.lt_dec k 16) as [Hk|Hk]; [now apply Hall|].
  rewrite nth_overflow by (cbn [length]; lia). lia.
Qed.

Lemma tail_loop_no_oob fuel : forall src last_src size i d cword rdst,
  last_src + 1 <= zlen src -> 0 <= i -> tail_loop fuel true src last_src size i d cword rdst <> DOob.
Proof.
  induction fuel as [|f IH]; intros src last_src size i d cword rdst Hls Hi; cbn [tail_loop]; [discriminate|].
  destruct (size - 1 <? d); [discriminate|].
  destruct (cword =? 1).
  - cbn [andb]. destruct (last_src + 1 <=? i + 4) eqn:E; [discriminate|]. apply Z.leb_gt in E.
    destruct (sb_some src (i + 4) ltac:(lia)) as [b ->]. apply IH; lia.
  - cbn [andb]. destruct (last_src + 1 <=? i) eqn:E; [discriminate|]. apply Z.leb_gt in E.
    destruct (sb_some src i ltac:(lia)) as [b ->]. apply IH; lia.
Qed.

(* the state invariant of the core loop in the memory-safe build *)
Definition core_inv (size d : Z) : Prop := 0 <= d /\ (d = 0 \/ d <= size - 4).

Lemma core_no_oob fuel : forall src last_src size i d cword rdst,
  last_src + 1 <= zlen src -> 0 <= i -> 0 <= size < 4294967296 -> core_inv size d ->
  core fuel true src last_src size i d cword rdst <> DOob.
Proof.
  induction fuel as [|f IH]; intros src last_src size i d cword rdst Hls Hi Hsz [Hd0 Hd]; cbn [core]; [discriminate|].
  (* one step from a position (i', cw) with 0 <= i' *)
  assert (Hstep : forall i' cw, 0 <= i' ->
    (if true && (last_src <? i' + 3) then DErr
     else match read32 src i' with
          | None => DOob
          | Some fetch =>
            if Z.land cw 1 =? 1 then
              let cw0 := Z.shiftr cw 1 in
              let '(offset, matchlen, adv) :=
                if Z.land fetch 3 =? 0 then (Z.shiftr (Z.land fetch 255) 2, 3, 1)
                else if Z.land fetch 2 =? 0 then (Z.shiftr (Z.land fetch 65535) 2, 3, 2)
                else if Z.land fetch 1 =? 0 then (Z.shiftr (Z.land fetch 65535) 6, Z.land (Z.shiftr fetch 2) 15 + 3, 2)
                else if negb (Z.land fetch 127 =? 3) then (Z.land (Z.shiftr fetch 7) 131071, Z.land (Z.shiftr fetch 2) 31 + 2, 3)
                else (Z.shiftr fetch 15, Z.land (Z.shiftr fetch 7) 255 + 3, 4) in
              let offset2 := d - offset in
              let room := (size - 1 - d - 4 + 1) mod 4294967296 in
              if true && ((offset2 <? 0) || (d - 3 <? offset2) || (room <? matchlen)) then DErr
              else if (offset2 <? 0) || (d <=? offset2) || (size <? d + matchlen) then DOob
              else core f true src last_src size (i' + adv) (d + matchlen) cw0 (copy_match (Z.to_nat matchlen) (Z.to_nat offset) rdst)
            else if d <? size - 1 - 6 - 4 then
              let n := bitlut cw in
              if size <? d + 4 then DOob
              else core f true src last_src size (i' + n) (d + n) (Z.shiftr cw n) (take_src (Z.to_nat n) src i' rdst)
            else tail_loop (S (length src)) true src last_src size i' d cw rdst
          end) <> DOob).
  { intros i' cw Hi'. cbn [andb]. destruct (last_src <? i' + 3) eqn:E; [discriminate|]. apply Z.ltb_ge in E.
    destruct (read32_some src i' Hi' ltac:(lia)) as (fetch & -> & Hf).
    destruct (Z.land cw 1 =? 1).
    - (* match *)
      set (oml := if Z.land fetch 3 =? 0 then _ else _).
      assert (Homl : 0 <= fst (fst oml) /\ 2 <= snd (fst oml) /\ 1 <= snd oml <= 4).
      { unfold oml. repeat match goal with |- context [if ?c then _ else _] => destruct c end; cbn [fst snd];
          repeat split; try lia; try (apply Z.shiftr_nonneg; try lia; apply Z.land_nonneg; lia);
          try (apply Z.land_nonneg; lia);
          try (pose proof (Z.land_nonneg (Z.shiftr fetch 2) 15); lia);
          try (pose proof (Z.land_nonneg (Z.shiftr fetch 2) 31); lia);
          try (pose proof (Z.land_nonneg (Z.shiftr fetch 7) 255); lia). }
      destruct oml as [[offset matchlen] adv]. cbn [fst snd] in Homl. destruct Homl as (Ho & Hm & Ha).
      cbv zeta.
      destruct ((d - offset <? 0) || (d - 3 <? d - offset) || ((size - 1 - d - 4 + 1) mod 4294967296 <? matchlen)) eqn:Echk; [discriminate|].
      apply orb_false_elim in Echk as [Echk E3]. apply orb_false_elim in Echk as [E1 E2].
      apply Z.ltb_ge in E1. apply Z.ltb_ge in E2. apply Z.ltb_ge in E3.
      assert (Hd3 : 3 <= d) by lia.
      assert (Hd4 : d <= size - 4) by (destruct Hd; lia).
      rewrite Z.mod_small in E3 by lia.
      replace (d - offset <? 0) with false by (symmetry; apply Z.ltb_ge; lia).
      replace (d <=? d - offset) with false by (symmetry; apply Z.leb_gt; lia).
      replace (size <? d + matchlen) with false by (symmetry; apply Z.ltb_ge; lia).
      cbn [orb]. apply IH; try assumption; try lia. split; [lia|right; lia].
    - destruct (d <? size - 1 - 6 - 4) eqn:El.
      + apply Z.ltb_lt in El. pose proof (bitlut_range cw) as Hb. cbv zeta.
        replace (size <? d + 4) with false by (symmetry; apply Z.ltb_ge; lia).
        apply IH; try assumption; try lia. split; [lia|right; lia].
      + apply tail_loop_no_oob; assumption. }
  destruct (cword =? 1).
  - cbn [andb]. destruct (last_src <? i + 3) eqn:E; [discriminate|]. apply Z.ltb_ge in E.
    destruct (read32_some src i Hi ltac:(lia)) as (cw & -> & _). apply Hstep. lia.
  - apply Hstep. exact Hi.
Qed.

Lemma hdr_len_val src h : hdr_len src = Some h -> h = 9 \/ h = 3.
Proof. unfold hdr_len. destruct (sb src 0); [|discriminate]. intros H. injection H as <-. destruct (_ =? 2); auto. Qed.

Lemma nth_allbytes src n : allbytes src = true -> (nth n src 0%N < 256)%N.
Proof.
  revert n. induction src as [|b t IH]; intros n H; destruct n; cbn [nth]; try reflexivity.
  - cbn [allbytes forallb] in H. apply andb_prop in H as [Hb _]. now apply N.ltb_lt in Hb.
  - cbn [allbytes forallb] in H. apply andb_prop in H as [_ Ht]. now apply IH.
Qed.

Lemma sb_range src i b : allbytes src = true -> sb src i = Some b -> 0 <= b < 256.
Proof.
  intros Hall. unfold sb. destruct (_ || _); [discriminate|]. intros H. injection H as <-.
  pose proof (nth_allbytes src (Z.to_nat i) Hall). lia.
Qed.

Lemma rd_le_range src i n v : allbytes src = true -> rd_le src i n = Some v -> 0 <= v < 4294967296.
Proof.
  intros Hall. unfold rd_le. destruct (n =? 4).
  - unfold read32. destruct (sb src i) as [a|] eqn:Ea; [|discriminate]. destruct (sb src (i + 1)) as [b|] eqn:Eb; [|discriminate].
    destruct (sb src (i + 2)) as [c|] eqn:Ec; [|discriminate]. destruct (sb src (i + 3)) as [d|] eqn:Ed; [|discriminate].
    intros H. assert (Hv : v = a + 256 * b + 65536 * c + 16777216 * d) by congruence. clear H.
    pose proof (sb_range _ _ _ Hall Ea). pose proof (sb_range _ _ _ Hall Eb).
    pose proof (sb_range _ _ _ Hall Ec). pose proof (sb_range _ _ _ Hall Ed).
    lia.
  - intros H. pose proof (sb_range _ _ _ Hall H). lia.
Qed.

(* CDecompressSafe with QLZ_MEMORY_SAFE and the stored-block check: total, never out of bounds *)
Theorem safe_entry_no_oob src : allbytes src = true -> c_decompress_safe true true src <> DOob.
Proof.
  intros Hall. unfold c_decompress_safe.
  destruct (hdr_len src) as [h|] eqn:Eh; [|discriminate].
  destruct (size_compressed src) as [sc|] eqn:Esc; [|discriminate].
  destruct (size_decompressed src) as [sd|] eqn:Esd; [|discriminate].
  destruct (sb src 0) as [b0|] eqn:Eb0; [|discriminate].
  destruct (zlen src =? sc) eqn:Elen; cbn [negb]; [|discriminate]. apply Z.eqb_eq in Elen.
  assert (Hsd : 0 <= sd < 4294967296).
  { unfold size_decompressed in Esd. rewrite Eh in Esd. eapply rd_le_range; eauto. }
  destruct (hdr_len_val src h Eh) as [Hh|Hh].
  all: destruct (true && (Z.land b0 1 =? 0) && negb (sd =? sc - h)) eqn:Est; [discriminate|].
  all: destruct (sd =? 0); [discriminate|].
  all: assert (Hc : c_decompress true src <> DOob).
  all: try (destruct (c_decompress true src); try discriminate; try (destruct (zlen _ =? sd); discriminate); congruence).
  all: unfold c_decompress; rewrite Eh, Esd, Esc, Eb0.
  all: destruct (Z.land b0 1 =? 1) eqn:Ebit.
  all: try (apply core_no_oob; [lia|lia|exact Hsd|split; [lia|left; reflexivity]]).
  all: cbn [andb] in Est; assert (Eb : Z.land b0 1 =? 0 = true).
  all: try (assert (Hl : Z.land b0 1 = b0 mod 2) by (change 1 with (Z.ones 1) at 1; apply Z.land_ones; lia);
            pose proof (Z.mod_pos_bound b0 2 ltac:(lia));
            apply Z.eqb_neq in Ebit; apply Z.eqb_eq; lia).
  all: rewrite Eb in Est; cbn [andb] in Est; apply negb_false_iff in Est; apply Z.eqb_eq in Est.
  all: replace (zlen src <? h + sd) with false by (symmetry; apply Z.ltb_ge; lia); discriminate.
Qed.

(* ---- the decision and the flag handling (store/item.go TryCompress / Decompress) ---- *)
From GB Require Import Compress Bits.
Open Scope N_scope.

Lemma client_flag_of_stored flag c : N.land flag flag_compress = 0 -> client_flag (stored_flag flag c) = flag.
Proof.
  intros H. unfold client_flag, stored_flag. destruct c.
  - rewrite <- lor_add_disjoint by exact H.
    rewrite N.land_lor_distr_l, H, N.land_diag, N.lor_0_l.
    change (flag_compress =? 0) with false. cbn match.
    rewrite lor_add_disjoint by exact H. lia.
  - now rewrite H.
Qed.

Lemma never_compress_tombstone ksz vlen flag ver z : (ver < 0)%Z -> compress_decide ksz vlen flag ver z = None.
Proof. intros H. unfold compress_decide. replace (ver <? 0)%Z with true by (symmetry; apply Z.ltb_lt; exact H). reflexivity. Qed.

Lemma never_compress_client_compressed ksz vlen flag ver z :
  N.land flag flag_client_compress <> 0 -> compress_decide ksz vlen flag ver z = None.
Proof.
  intros H. unfold compress_decide. destruct (ver <? 0)%Z; [reflexivity|].
  apply N.eqb_neq in H. rewrite H. reflexivity.
Qed.

Lemma never_compress_small ksz vlen flag ver z :
  padded (sizes_header + ksz + vlen) <= compress_min_recsize -> compress_decide ksz vlen flag ver z = None.
Proof.
  intros H. unfold compress_decide. destruct (ver <? 0)%Z; [reflexivity|]. destruct (_ || _); [reflexivity|].
  apply N.leb_le in H. rewrite H. reflexivity.
Qed.

Lemma compress_needs_ratio ksz vlen flag ver z n :
  compress_decide ksz vlen flag ver z = Some n ->
  10 * z_probe z <= compress_ratio_tenths * N.min vlen try_compress_size /\ z_sniff_ok z = true /\
  n = (if N.min vlen try_compress_size <? vlen then z_full z else z_probe z).
Proof.
  unfold compress_decide. destruct (ver <? 0)%Z; [discriminate|]. destruct (_ || _); [discriminate|].
  destruct (_ <=? _); [discriminate|]. destruct (compress_skips_empty && _); [discriminate|].
  destruct (z_sniff_ok z); cbn [negb]; [|discriminate].
  destruct (compress_ratio_tenths * N.min vlen try_compress_size <? 10 * z_probe z) eqn:E; [discriminate|].
  apply N.ltb_ge in E. intros H. injection H as <-. auto.
Qed.
