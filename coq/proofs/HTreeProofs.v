(* C08: the leaf-level summaries (count, hash) of the merkle tree are a function of the items currently in
   the leaf -- whatever sequence of sets, overwrites and removals produced them. *)
From Coq Require Import NArith ZArith List Bool Lia ZifyN ZifyNat ZifyBool FMapPositive Sorting.Permutation.
From GB Require Import Consts Words KeyPath HTree CheckC08 Bits.
Import ListNotations.
Open Scope N_scope.

(* ---- maps ---- *)
Lemma succ_pos_inj' a b : N.succ_pos a = N.succ_pos b -> a = b.
Proof. intros H. apply (f_equal Npos) in H. rewrite !N.succ_pos_spec in H. lia. Qed.
Lemma mget_mset_same {A} (m : nmap A) k v d : mget (mset m k v) k d = v.
Proof. unfold mget, mset. now rewrite PM.gss. Qed.
Lemma mget_mset_other {A} (m : nmap A) k k' v d : k <> k' -> mget (mset m k v) k' d = mget m k' d.
Proof. intros H. unfold mget, mset. rewrite PM.gso; [reflexivity|]. intros E. apply succ_pos_inj' in E. congruence. Qed.

Lemma nkey_inj l o l' o' : o < 4294967296 -> o' < 4294967296 -> nkey l o = nkey l' o' -> l = l' /\ o = o'.
Proof. unfold nkey. intros H1 H2 E. split; nia. Qed.

(* ---- per-leaf sums ---- *)
Definition live_it (it : titem) : bool := (0 <? ti_ver it)%Z.
Definition wgt (G : N -> N) (it : titem) : N := if live_it it then ti_vh it * G (ti_low it) else 0.
Definition sum_of (G : N -> N) (l : list titem) : N := fold_right (fun it acc => wgt G it + acc) 0 l.
Definition cnt_of (l : list titem) : N := fold_right (fun it acc => (if live_it it then 1 else 0) + acc) 0 l.

Lemma sum_of_app G a b : sum_of G (a ++ b) = sum_of G a + sum_of G b.
Proof. induction a as [|x a IH]; cbn [app sum_of fold_right]; [reflexivity|]. fold (sum_of G (a ++ b)) (sum_of G a). rewrite IH. lia. Qed.
Lemma cnt_of_app a b : cnt_of (a ++ b) = cnt_of a + cnt_of b.
Proof. induction a as [|x a IH]; cbn [app cnt_of fold_right]; [reflexivity|]. fold (cnt_of (a ++ b)) (cnt_of a). rewrite IH. lia. Qed.

Lemma sum_of_perm G a b : Permutation a b -> sum_of G a = sum_of G b.
Proof. induction 1; cbn [sum_of fold_right] in *; try lia. fold (sum_of G l) (sum_of G l') in *. lia. Qed.
Lemma cnt_of_perm a b : Permutation a b -> cnt_of a = cnt_of b.
Proof. induction 1; cbn [cnt_of fold_right] in *; try lia. fold (cnt_of l) (cnt_of l') in *. lia. Qed.

Lemma leaf_replace_sum G l it o : leaf_find l (ti_low it) = Some o ->
  sum_of G (leaf_replace l it) + wgt G o = sum_of G l + wgt G it /\
  cnt_of (leaf_replace l it) + (if live_it o then 1 else 0) = cnt_of l + (if live_it it then 1 else 0) /\
  map ti_low (leaf_replace l it) = map ti_low l.
Proof.
  induction l as [|x l IH]; cbn [leaf_find leaf_replace]; [discriminate|].
  destruct (ti_low x =? ti_low it) eqn:E.
  - intros H; injection H as <-. cbn [sum_of cnt_of fold_right map]. apply N.eqb_eq in E. repeat split; try lia. now rewrite E.
  - intros H. destruct (IH H) as (I1 & I2 & I3). cbn [sum_of cnt_of fold_right map].
    fold (sum_of G (leaf_replace l it)) (sum_of G l) (cnt_of (leaf_replace l it)) (cnt_of l). repeat split; try lia. now rewrite I3.
Qed.

Lemma leaf_remove_sum G l low o : leaf_find l low = Some o ->
  sum_of G (leaf_remove l low) + wgt G o = sum_of G l /\
  cnt_of (leaf_remove l low) + (if live_it o then 1 else 0) = cnt_of l /\
  (forall x, In x (map ti_low (leaf_remove l low)) -> In x (map ti_low l)) /\
  (NoDup (map ti_low l) -> NoDup (map ti_low (leaf_remove l low))) /\
  (forall x, In x (leaf_remove l low) -> In x l).
Proof.
  induction l as [|x l IH]; cbn [leaf_find leaf_remove]; [discriminate|].
  destruct (ti_low x =? low) eqn:E.
  - intros H; injection H as <-. cbn [sum_of cnt_of fold_right map]. fold (sum_of G l) (cnt_of l).
    repeat split; try lia; [intros y Hy; now right|intros Hn; now inversion Hn|intros y Hy; now right].
  - intros H. destruct (IH H) as (I1 & I2 & I3 & I4 & I5). cbn [sum_of cnt_of fold_right map].
    fold (sum_of G (leaf_remove l low)) (sum_of G l) (cnt_of (leaf_remove l low)) (cnt_of l).
    repeat split; try lia.
    + intros y [<-|Hy]; [now left|right; auto].
    + intros Hn. inversion Hn as [|? ? Hni Hn']; subst. constructor; [intros Hin; apply Hni; auto|auto].
    + intros y [<-|Hy]; [now left|right; auto].
Qed.

Lemma leaf_find_le G l low o : leaf_find l low = Some o -> wgt G o <= sum_of G l /\ (if live_it o then 1 else 0) <= cnt_of l.
Proof.
  induction l as [|x l IH]; cbn [leaf_find]; [discriminate|]. cbn [sum_of cnt_of fold_right]. fold (sum_of G l) (cnt_of l).
  destruct (ti_low x =? low); [intros H; injection H as <-; lia|]. intros H. destruct (IH H). lia.
Qed.

Lemma leaf_find_none_notin l low : leaf_find l low = None -> ~ In low (map ti_low l).
Proof.
  induction l as [|x l IH]; cbn [leaf_find map]; [intros _ []|]. destruct (ti_low x =? low) eqn:E; [discriminate|].
  intros H [Hx|Hin]; [lia|now apply IH].
Qed.
Lemma leaf_find_in l low o : leaf_find l low = Some o -> In o l /\ ti_low o = low.
Proof.
  induction l as [|x l IH]; cbn [leaf_find]; [discriminate|]. destruct (ti_low x =? low) eqn:E.
  - intros H; injection H as <-. split; [now left|lia].
  - intros H. destruct (IH H). split; [now right|assumption].
Qed.

(* ---- modular bookkeeping: exactly what setToLeaf / remvoeFromLeaf do in uint16 / uint32 ---- *)
Lemma hash_update S vo vn g :
  vo < 65536 -> vo * g <= S ->
  w16 (S mod 65536 + w16 (w16 (vn + 65536 - vo) * g)) = (S - vo * g + vn * g) mod 65536.
Proof.
  intros Hvo Hle. rewrite !w16_mod.
  rewrite N.mul_mod_idemp_l by discriminate. rewrite <- N.add_mod by discriminate.
  replace (S + (vn + 65536 - vo) * g) with ((S - vo * g + vn * g) + g * 65536) by nia.
  apply N.mod_add. discriminate.
Qed.

Lemma count_update C sub add : sub <= C -> sub <= 1 -> add <= 1 ->
  w32 (C mod 4294967296 + add + 4294967296 - sub) = (C - sub + add) mod 4294967296.
Proof.
  intros H1 H2 H3. rewrite w32_mod.
  replace (C mod 4294967296 + add + 4294967296 - sub) with ((add + 4294967296 - sub) + C mod 4294967296) by lia.
  rewrite N.add_mod_idemp_r by discriminate.
  replace (add + 4294967296 - sub + C) with ((C - sub + add) + 1 * 4294967296) by lia.
  apply N.mod_add. discriminate.
Qed.

Lemma hash_remove S X : X <= S -> w16 (S mod 65536 + 65536 - w16 X) = (S - X) mod 65536.
Proof.
  intros H. rewrite !w16_mod.
  assert (Hx : X mod 65536 < 65536) by (apply N.mod_lt; discriminate).
  replace (S mod 65536 + 65536 - X mod 65536) with ((65536 - X mod 65536) + S mod 65536) by lia.
  rewrite N.add_mod_idemp_r by discriminate.
  rewrite (N.div_mod X 65536) at 2 by discriminate.
  replace (65536 - X mod 65536 + S) with ((S - (65536 * (X / 65536) + X mod 65536)) + (1 + X / 65536) * 65536).
  - apply N.mod_add. discriminate.
  - pose proof (N.div_mod X 65536 ltac:(discriminate)). nia.
Qed.

Lemma count_remove C : 1 <= C -> w32 (C mod 4294967296 + 4294967295) = (C - 1) mod 4294967296.
Proof.
  intros H. rewrite w32_mod. replace (C mod 4294967296 + 4294967295) with (4294967295 + C mod 4294967296) by lia.
  rewrite N.add_mod_idemp_r by discriminate. replace (4294967295 + C) with ((C - 1) + 1 * 4294967296) by lia.
  apply N.mod_add. discriminate.
Qed.

(* ---- tree plumbing ---- *)
Lemma in_firstn {A} n (l : list A) x : In x (firstn n l) -> In x l.
Proof. revert l. induction n; intros l; [intros []|]. destruct l; cbn [firstn]; [intros []|]. intros [->|H]; [now left|right; auto]. Qed.
Lemma in_skipn {A} n (l : list A) x : In x (skipn n l) -> In x l.
Proof. revert l. induction n; intros l; [auto|]. destruct l; cbn [skipn]; [intros []|]. intros H. right. auto. Qed.

Lemma hexdigit_lt h i : hexdigit h i < 16.
Proof. unfold hexdigit. change 15 with (N.ones 4). rewrite N.land_ones. apply N.mod_lt. discriminate. Qed.

Lemma path_digits_lt h : Forall (fun d => d < 16) (path_of_hash h).
Proof. unfold path_of_hash. apply Forall_forall. intros d Hd. apply in_map_iff in Hd as (i & <- & _). apply hexdigit_lt. Qed.

Lemma fold_digits_lt ds : Forall (fun d => d < 16) ds -> forall o n, o < 16 ^ n ->
  fold_left (fun o0 v => o0 * 16 + v) ds o < 16 ^ (n + N.of_nat (length ds)).
Proof.
  induction 1 as [|d ds Hd _ IH]; intros o n Ho; cbn [fold_left length]; [now rewrite N.add_0_r|].
  replace (n + N.of_nat (S (length ds))) with ((n + 1) + N.of_nat (length ds)) by lia.
  apply IH. rewrite N.pow_add_r. change (16 ^ 1) with 16. nia.
Qed.

Lemma leaf_offset_lt t h : (t_height t <= 8)%nat -> leaf_offset t h < 4294967296.
Proof.
  intros Hh. unfold leaf_offset.
  assert (Hf : Forall (fun d => d < 16) (firstn (t_height t - 1) (skipn (t_depth t) (path_of_hash h)))).
  { apply Forall_forall. intros d Hd. apply in_firstn, in_skipn in Hd. pose proof (path_digits_lt h) as Hp. rewrite Forall_forall in Hp. now apply Hp. }
  pose proof (fold_digits_lt _ Hf 0 0 ltac:(cbn; lia)) as H. cbn [N.add] in H.
  eapply N.lt_le_trans; [exact H|].
  assert (Hl : (length (firstn (t_height t - 1) (skipn (t_depth t) (path_of_hash h))) <= 7)%nat) by (rewrite firstn_length; lia).
  change 4294967296 with (16 ^ 8). apply N.pow_le_mono_r; lia.
Qed.

Lemma get_set_node_same t l o nd : get_node (set_node t l o nd) l o = nd.
Proof. unfold get_node, set_node. cbn [t_inner t_height]. apply mget_mset_same. Qed.
Lemma get_set_node_other t l o nd l' o' : o < 4294967296 -> o' < 4294967296 -> (l, o) <> (l', o') ->
  get_node (set_node t l o nd) l' o' = get_node t l' o'.
Proof.
  intros H1 H2 Hne. unfold get_node, set_node. cbn [t_inner t_height]. apply mget_mset_other.
  intros E. apply nkey_inj in E as [-> ->]; [congruence|assumption|assumption].
Qed.
Lemma get_leaf_set_same t o l : get_leaf (set_leaf t o l) o = l.
Proof. unfold get_leaf, set_leaf. cbn [t_leafs]. apply mget_mset_same. Qed.
Lemma get_leaf_set_other t o l o' : o <> o' -> get_leaf (set_leaf t o l) o' = get_leaf t o'.
Proof. intros H. unfold get_leaf, set_leaf. cbn [t_leafs]. now apply mget_mset_other. Qed.

(* invalidation only touches inner levels *)
Lemma invalidate_facts : forall n t ds lvl o, Forall (fun d => d < 16) ds -> o < 16 ^ N.of_nat lvl -> (lvl + n <= 8)%nat ->
  let t' := invalidate t ds lvl o n in
  t_leafs t' = t_leafs t /\ t_depth t' = t_depth t /\ t_height t' = t_height t /\
  forall l' o', (lvl + n <= l')%nat -> o' < 4294967296 -> get_node t' l' o' = get_node t l' o'.
Proof.
  induction n as [|n IH]; intros t ds lvl o Hds Ho Hl; cbv zeta; [destruct ds; cbn [invalidate]; repeat split; reflexivity|].
  assert (Ho32 : o < 4294967296).
  { eapply N.lt_le_trans; [exact Ho|]. change 4294967296 with (16 ^ 8). apply N.pow_le_mono_r; lia. }
  set (t1 := set_node t lvl o (mkNode (n_count (get_node t lvl o)) (n_hash (get_node t lvl o)) false)).
  assert (H1 : forall l' o', (lvl + S n <= l')%nat -> o' < 4294967296 -> get_node t1 l' o' = get_node t l' o').
  { intros l' o' Hl' Ho'. unfold t1. apply get_set_node_other; try assumption. intros E. injection E as -> _. lia. }
  destruct ds as [|d ds]; cbn [invalidate]; fold t1; [repeat split; try reflexivity; exact H1|].
  inversion Hds as [|? ? Hd Hds']; subst.
  destruct (IH t1 ds (S lvl) (o * 16 + d) Hds') as (I1 & I2 & I3 & I4).
  { replace (N.of_nat (S lvl)) with (N.of_nat lvl + 1) by lia. rewrite N.pow_add_r. change (16 ^ 1) with 16. nia. }
  { lia. }
  cbv zeta in I1, I2, I3, I4. split; [exact I1|]. split; [exact I2|]. split; [exact I3|].
  intros l' o' Hl' Ho'. rewrite I4 by (try lia; assumption). apply H1; assumption.
Qed.

Lemma invalidate_path_facts t h : (1 <= t_height t <= 8)%nat ->
  let t' := invalidate_path t h in
  t_leafs t' = t_leafs t /\ t_depth t' = t_depth t /\ t_height t' = t_height t /\
  forall o', o' < 4294967296 -> get_node t' (t_height t - 1) o' = get_node t (t_height t - 1) o'.
Proof.
  intros Hh. cbv zeta. unfold invalidate_path.
  assert (Hds : Forall (fun d => d < 16) (skipn (t_depth t) (path_of_hash h))).
  { apply Forall_forall. intros d Hd. apply in_skipn in Hd. pose proof (path_digits_lt h) as Hp. rewrite Forall_forall in Hp. now apply Hp. }
  destruct (invalidate_facts (t_height t - 1) t _ 0 0 Hds ltac:(cbn; lia) ltac:(lia)) as (I1 & I2 & I3 & I4). cbv zeta in I1, I2, I3, I4.
  split; [exact I1|]. split; [exact I2|]. split; [exact I3|]. intros o' Ho'. apply I4; [lia|exact Ho'].
Qed.

Lemma NoDup_app_snoc {A} (l : list A) x : NoDup l -> ~ In x l -> NoDup (l ++ [x]).
Proof.
  induction l as [|y l IH]; cbn [app]; intros Hnd Hni; [constructor; [intros []|constructor]|].
  inversion Hnd as [|? ? Hy Hnd']; subst. constructor.
  - intros Hin. apply in_app_or in Hin as [Hin|[<-|[]]]; [contradiction|]. apply Hni. now left.
  - apply IH; [exact Hnd'|]. intros Hin. apply Hni. now right.
Qed.

Lemma if_le1 (b : bool) : (if b then 1 else 0) <= 1.
Proof. destruct b; lia. Qed.

(* ---- the leaf invariant ---- *)
Section Leaf.
(* G lo low = bits 32..47 of the key hash stored in leaf lo with truncated hash low (the code reconstructs
   the full hash from the leaf's path and the stored low bytes) *)
Variable G : N -> N -> N.

Definition leaf_ok (t : htree) (lo : N) : Prop :=
  let l := get_leaf t lo in let nd := get_node t (t_height t - 1) lo in
  n_count nd = cnt_of l mod 4294967296 /\ n_hash nd = sum_of (G lo) l mod 65536 /\
  NoDup (map ti_low l) /\ Forall (fun it => ti_vh it < 65536) l.

Definition LInv (t : htree) : Prop := (1 <= t_height t <= 8)%nat /\ forall lo, lo < 4294967296 -> leaf_ok t lo.

Definition consistent (t : htree) (khash : N) : Prop := hi16 khash = G (leaf_offset t khash) (low_of t khash).

Lemma same_shape_funs t t' : t_depth t' = t_depth t -> t_height t' = t_height t ->
  (forall h, leaf_offset t' h = leaf_offset t h) /\ (forall h, low_of t' h = low_of t h).
Proof. intros Hd Hh. unfold leaf_offset, low_of, khash_mask, khash_len. rewrite Hd, Hh. auto. Qed.

Lemma tree_set_linv t khash ver vh ck off :
  LInv t -> consistent t khash -> vh < 65536 -> LInv (tree_set t khash ver vh ck off) /\
  t_depth (tree_set t khash ver vh ck off) = t_depth t /\ t_height (tree_set t khash ver vh ck off) = t_height t.
Proof.
  intros [Hh HI] Hc Hvh. unfold tree_set.
  destruct (invalidate_path_facts t khash Hh) as (P1 & P2 & P3 & P4). cbv zeta in P1, P2, P3, P4.
  set (t1 := invalidate_path t khash) in *.
  destruct (same_shape_funs t t1 P2 P3) as [Hlo Hlow]. rewrite Hlo, Hlow, P3.
  set (lo := leaf_offset t khash). set (low := low_of t khash).
  assert (Hlo32 : lo < 4294967296) by (apply leaf_offset_lt; lia).
  assert (Hleaf1 : forall x, get_leaf t1 x = get_leaf t x) by (intros x; unfold get_leaf; now rewrite P1).
  rewrite Hleaf1, P4 by exact Hlo32.
  destruct (HI lo Hlo32) as (Hcnt & Hsum & Hnd & Hvhs). cbv zeta in Hcnt, Hsum.
  set (l := get_leaf t lo) in *. set (nd := get_node t (t_height t - 1) lo) in *.
  set (it := mkTI low ver vh (enc_off off) (enc_chunk ck)).
  set (old := leaf_find l low).
  set (l' := match old with Some _ => leaf_replace l it | None => l ++ [it] end).
  set (add := (0 <? ver)%Z).
  set (sub := match old with Some o => (0 <? ti_ver o)%Z | None => false end).
  set (vo := if sub then match old with Some o => ti_vh o | None => 0 end else 0).
  set (vn := if add then vh else 0).
  unfold consistent in Hc. fold lo low in Hc.
  (* sums after the operation *)
  assert (Hnew : sum_of (G lo) l' + vo * hi16 khash = sum_of (G lo) l + vn * hi16 khash /\
                 cnt_of l' + (if sub then 1 else 0) = cnt_of l + (if add then 1 else 0) /\
                 NoDup (map ti_low l') /\ Forall (fun x => ti_vh x < 65536) l' /\ vo < 65536 /\
                 vo * hi16 khash <= sum_of (G lo) l /\ (if sub then 1 else 0) <= cnt_of l).
  { unfold l', vo, vn, sub. destruct old as [o|] eqn:Eo; unfold old in Eo.
    - destruct (leaf_replace_sum (G lo) l it o Eo) as (R1 & R2 & R3).
      destruct (leaf_find_in l low o Eo) as [Hino Hlowo].
      assert (Hvo : ti_vh o < 65536) by (rewrite Forall_forall in Hvhs; auto).
      unfold wgt, live_it in R1, R2. cbn [ti_low ti_ver ti_vh it] in R1, R2. rewrite Hlowo, <- Hc in R1. fold add in R1, R2.
      split; [destruct (0 <? ti_ver o)%Z, add; lia|]. split; [destruct (0 <? ti_ver o)%Z, add; lia|].
      destruct (leaf_find_le (G lo) l low o Eo) as [L1 L2]. unfold wgt, live_it in L1, L2. rewrite Hlowo, <- Hc in L1.
      split; [now rewrite R3|]. split; [|split; [destruct (0 <? ti_ver o)%Z; lia|split; [destruct (0 <? ti_ver o)%Z; lia|destruct (0 <? ti_ver o)%Z; lia]]].
      apply Forall_forall. intros x Hx. rewrite Forall_forall in Hvhs.
      clear -Hx Hvhs Hvh. induction l as [|y l IHl]; cbn [leaf_replace] in Hx; [destruct Hx|].
      destruct (ti_low y =? ti_low it).
      + destruct Hx as [<-|Hx]; [exact Hvh|apply Hvhs; now right].
      + destruct Hx as [<-|Hx]; [apply Hvhs; now left|]. apply IHl; [|exact Hx]. intros z Hz. apply Hvhs. now right.
    - rewrite sum_of_app, cnt_of_app, map_app. cbn [sum_of cnt_of fold_right map]. unfold wgt, live_it. cbn [ti_low ti_ver ti_vh it]. fold add.
      rewrite <- Hc. split; [destruct add; lia|]. split; [destruct add; lia|]. split; [|split; [|lia]].
      + apply NoDup_app_snoc; [exact Hnd|now apply leaf_find_none_notin].
      + apply Forall_app. split; [exact Hvhs|constructor; [exact Hvh|constructor]]. }
  destruct Hnew as (Ns & Nc & Nnd & Nvh & Hvo & Hvs & Hcs).
  set (res := set_node (set_leaf t1 lo l') (t_height t - 1) lo _).
  assert (Hres_leaf : forall x, get_leaf res x = if N.eqb lo x then l' else get_leaf t x).
  { intros x. unfold res. change (get_leaf (set_node ?a _ _ _) x) with (get_leaf a x).
    destruct (N.eqb_spec lo x) as [<-|Hne]; [apply get_leaf_set_same|]. rewrite get_leaf_set_other by exact Hne. apply Hleaf1. }
  split; [|split; [exact P2|exact P3]].
  split; [change (t_height res) with (t_height t1); rewrite P3; exact Hh|]. intros x Hx. unfold leaf_ok. change (t_height res) with (t_height t1). rewrite P3, Hres_leaf.
  destruct (N.eqb_spec lo x) as [<-|Hne].
  - unfold res. rewrite get_set_node_same. cbn [n_count n_hash].
    split; [|split; [|split; assumption]].
    + rewrite Hcnt. pose proof (if_le1 sub) as Hs1. pose proof (if_le1 add) as Ha1.
      replace (cnt_of l') with (cnt_of l - (if sub then 1 else 0) + (if add then 1 else 0)) by lia.
      apply count_update; lia.
    + rewrite Hsum. fold vo vn.
      replace (sum_of (G lo) l') with (sum_of (G lo) l - vo * hi16 khash + vn * hi16 khash) by lia.
      apply hash_update; [exact Hvo|lia].
  - unfold res. rewrite get_set_node_other; [|exact Hlo32|exact Hx|intros E; injection E as E; congruence].
    change (get_node (set_leaf t1 lo l') (t_height t - 1) x) with (get_node t1 (t_height t - 1) x). rewrite P4 by exact Hx.
    apply (HI x Hx).
Qed.

Lemma invalidate_linv t khash : LInv t -> LInv (invalidate_path t khash) /\
  t_depth (invalidate_path t khash) = t_depth t /\ t_height (invalidate_path t khash) = t_height t.
Proof.
  intros [Hh HI]. destruct (invalidate_path_facts t khash Hh) as (P1 & P2 & P3 & P4). cbv zeta in P1, P2, P3, P4.
  split; [|split; assumption]. split; [now rewrite P3|]. intros x Hx. unfold leaf_ok. rewrite P3, P4 by exact Hx.
  unfold get_leaf. rewrite P1. apply (HI x Hx).
Qed.

Lemma tree_remove_linv t khash ck off :
  LInv t -> consistent t khash -> LInv (tree_remove t khash ck off) /\
  t_depth (tree_remove t khash ck off) = t_depth t /\ t_height (tree_remove t khash ck off) = t_height t.
Proof.
  intros HL Hc. pose proof HL as [Hh HI]. unfold tree_remove.
  destruct (invalidate_linv t khash HL) as (HL1 & P2 & P3).
  destruct (invalidate_path_facts t khash Hh) as (P1 & _ & _ & P4). cbv zeta in P1, P4.
  set (t1 := invalidate_path t khash) in *.
  destruct (same_shape_funs t t1 P2 P3) as [Hlo Hlow]. rewrite Hlo, Hlow, P3.
  set (lo := leaf_offset t khash). set (low := low_of t khash).
  assert (Hlo32 : lo < 4294967296) by (apply leaf_offset_lt; lia).
  assert (Hleaf1 : forall x, get_leaf t1 x = get_leaf t x) by (intros x; unfold get_leaf; now rewrite P1).
  rewrite Hleaf1. unfold consistent in Hc. fold lo low in Hc.
  destruct (leaf_find (get_leaf t lo) low) as [o|] eqn:Eo; [|now split].
  destruct ((ck =? -1)%Z || (ti_off o =? off)); [|now split].
  destruct (HI lo Hlo32) as (Hcnt & Hsum & Hnd & Hvhs). cbv zeta in Hcnt, Hsum.
  destruct (leaf_remove_sum (G lo) _ low o Eo) as (R1 & R2 & R3 & R4 & R5).
  destruct (leaf_find_in _ low o Eo) as [Hino Hlowo].
  set (l := get_leaf t lo) in *. set (l' := leaf_remove l low) in *.
  assert (Hvh' : Forall (fun x => ti_vh x < 65536) l').
  { apply Forall_forall. intros x Hx. rewrite Forall_forall in Hvhs. apply Hvhs. now apply R5. }
  assert (Hleaf' : forall (tt : htree) x, (forall y, get_leaf tt y = get_leaf (set_leaf t1 lo l') y) ->
                      get_leaf tt x = if N.eqb lo x then l' else get_leaf t x).
  { intros tt x Htt. rewrite Htt. destruct (N.eqb_spec lo x) as [<-|Hne]; [apply get_leaf_set_same|].
    rewrite get_leaf_set_other by exact Hne. apply Hleaf1. }
  rewrite P4 by exact Hlo32.
  unfold wgt, live_it in R1, R2. rewrite Hlowo, <- Hc in R1.
  destruct (0 <? ti_ver o)%Z eqn:El.
  - set (res := set_node (set_leaf t1 lo l') (t_height t - 1) lo _).
    split; [|split; [exact P2|exact P3]]. split; [change (t_height res) with (t_height t1); now rewrite P3|].
    intros x Hx. unfold leaf_ok. change (t_height res) with (t_height t1). rewrite P3.
    rewrite (Hleaf' res x) by (intros y; reflexivity).
    destruct (N.eqb_spec lo x) as [<-|Hne].
    + unfold res. rewrite get_set_node_same. cbn [n_count n_hash]. split; [|split; [|split; [now apply R4|exact Hvh']]].
      * rewrite Hcnt. replace (cnt_of l') with (cnt_of l - 1) by lia. apply count_remove. lia.
      * rewrite Hsum. replace (sum_of (G lo) l') with (sum_of (G lo) l - ti_vh o * hi16 khash) by lia. apply hash_remove. lia.
    + unfold res. rewrite get_set_node_other; [|exact Hlo32|exact Hx|intros E; injection E as E; congruence].
      change (get_node (set_leaf t1 lo l') (t_height t - 1) x) with (get_node t1 (t_height t - 1) x). rewrite P4 by exact Hx.
      apply (HI x Hx).
  - split; [|split; [exact P2|exact P3]]. split; [change (t_height (set_leaf t1 lo l')) with (t_height t1); now rewrite P3|].
    intros x Hx. unfold leaf_ok. change (t_height (set_leaf t1 lo l')) with (t_height t1). rewrite P3.
    rewrite (Hleaf' _ x) by (intros y; reflexivity).
    change (get_node (set_leaf t1 lo l') (t_height t - 1) x) with (get_node t1 (t_height t - 1) x). rewrite P4 by exact Hx.
    destruct (N.eqb_spec lo x) as [<-|Hne]; [|apply (HI x Hx)].
    split; [rewrite Hcnt; f_equal; lia|]. split; [rewrite Hsum; f_equal; lia|]. split; [now apply R4|exact Hvh'].
Qed.

(* ---- sequences of operations (the function the correspondence check folds) ---- *)
Definition top_hash (o : top) : N := match o with TSet h _ _ _ _ | TRem h _ _ => h end.
Definition top_ok (o : top) : Prop := match o with TSet _ _ vh _ _ => vh < 65536 | TRem _ _ _ => True end.

Lemma new_tree_linv d h : (1 <= h <= 8)%nat -> LInv (new_tree d h).
Proof.
  intros Hh. split; [exact Hh|]. intros lo _. unfold leaf_ok, get_leaf, get_node, new_tree, mget. cbn [t_leafs t_inner t_height].
  rewrite !PM.gempty. cbn [node0 n_count n_hash map cnt_of sum_of fold_right]. repeat split; constructor.
Qed.

Theorem ops_linv d h ops : (1 <= h <= 8)%nat ->
  (forall o, In o ops -> top_ok o /\ hi16 (top_hash o) = G (leaf_offset (new_tree d h) (top_hash o)) (low_of (new_tree d h) (top_hash o))) ->
  LInv (fold_left apply_top ops (new_tree d h)).
Proof.
  intros Hh Hops.
  assert (H : forall l t, LInv t -> t_depth t = d -> t_height t = h ->
              (forall o, In o l -> top_ok o /\ consistent t (top_hash o)) -> LInv (fold_left apply_top l t)).
  { induction l as [|o l IH]; intros t HL Hd Hht Hl; cbn [fold_left]; [exact HL|].
    destruct (Hl o (or_introl eq_refl)) as [Hok Hco].
    assert (Hstep : LInv (apply_top t o) /\ t_depth (apply_top t o) = t_depth t /\ t_height (apply_top t o) = t_height t).
    { destruct o; cbn [apply_top top_hash top_ok] in *; [now apply tree_set_linv|now apply tree_remove_linv]. }
    destruct Hstep as (S1 & S2 & S3). apply IH; [exact S1|congruence|congruence|].
    intros o' Ho'. destruct (Hl o' (or_intror Ho')) as [Hk Hc']. split; [exact Hk|].
    unfold consistent in *. destruct (same_shape_funs t (apply_top t o) S2 S3) as [E1 E2]. now rewrite E1, E2. }
  apply H; [now apply new_tree_linv|reflexivity|reflexivity|].
  intros o Ho. destruct (Hops o Ho) as [H1 H2]. split; [exact H1|exact H2].
Qed.
End Leaf.

(* ---- the labelling G taken from the hashes that occur, and history independence ---- *)
Definition Gof (t0 : htree) (hs : list N) (lo low : N) : N :=
  match find (fun h => (leaf_offset t0 h =? lo) && (low_of t0 h =? low)) hs with Some h => hi16 h | None => 0 end.

Definition alias_free (t0 : htree) (hs : list N) : Prop :=
  forall h1 h2, In h1 hs -> In h2 hs -> leaf_offset t0 h1 = leaf_offset t0 h2 -> low_of t0 h1 = low_of t0 h2 -> hi16 h1 = hi16 h2.

Lemma Gof_consistent t0 hs h : alias_free t0 hs -> In h hs -> hi16 h = Gof t0 hs (leaf_offset t0 h) (low_of t0 h).
Proof.
  intros Ha Hin. unfold Gof.
  destruct (find _ hs) as [h'|] eqn:E.
  - apply find_some in E as [Hin' Hp]. apply andb_prop in Hp as [H1 H2]. apply N.eqb_eq in H1, H2. apply Ha; auto.
  - exfalso. pose proof (find_none _ _ E h Hin) as Hf. cbv beta in Hf. rewrite !N.eqb_refl in Hf. discriminate.
Qed.

Theorem leaf_summaries d h ops hs : (1 <= h <= 8)%nat ->
  (forall o, In o ops -> top_ok o /\ In (top_hash o) hs) -> alias_free (new_tree d h) hs ->
  LInv (Gof (new_tree d h) hs) (fold_left apply_top ops (new_tree d h)).
Proof.
  intros Hh Hops Ha. apply ops_linv; [exact Hh|]. intros o Ho. destruct (Hops o Ho) as [H1 H2].
  split; [exact H1|]. now apply Gof_consistent.
Qed.

(* equal leaf contents (as sets) give equal leaf summaries, whatever histories produced them *)
Theorem leaf_history_independent G t t' : LInv G t -> LInv G t' -> t_height t' = t_height t ->
  (forall lo, Permutation (get_leaf t lo) (get_leaf t' lo)) ->
  forall lo, lo < 4294967296 ->
    n_count (get_node t (t_height t - 1) lo) = n_count (get_node t' (t_height t' - 1) lo) /\
    n_hash (get_node t (t_height t - 1) lo) = n_hash (get_node t' (t_height t' - 1) lo).
Proof.
  intros [_ H1] [_ H2] Hh Hp lo Hlo. destruct (H1 lo Hlo) as (C1 & S1 & _). destruct (H2 lo Hlo) as (C2 & S2 & _).
  cbv zeta in C1, S1, C2, S2. rewrite C1, C2, S1, S2. rewrite (cnt_of_perm _ _ (Hp lo)), (sum_of_perm (G lo) _ _ (Hp lo)). auto.
Qed.
