(* The data log is append-only under every client operation: a record readable at a position stays
   readable there (used by C04: a read that looked its position up earlier still finds its record). *)
From Coq Require Import NArith ZArith List Bool Lia ZifyN ZifyNat ZifyBool.
From GB Require Import Consts Words Hash HintFile HTree Compress Bucket BucketOpen Gc CheckL2 BucketBasics Refine GcTouch.
Import ListNotations.
Open Scope N_scope.

Definition log_le (b b' : bucket) : Prop := forall q r0, log_find b q = Some r0 -> log_find b' q = Some r0.

Lemma log_le_refl b : log_le b b. Proof. intros q r H. exact H. Qed.
Lemma log_le_trans a b c : log_le a b -> log_le b c -> log_le a c.
Proof. intros H1 H2 q r H. apply H2, H1, H. Qed.

Lemma log_find_dat b b' p : dat b = dat b' -> log_find b p = log_find b' p.
Proof. unfold dat, log_find, chunk_at. intros H. injection H as -> _. reflexivity. Qed.
Lemma log_le_dat b b' : dat b = dat b' -> log_le b b'.
Proof. intros H q r Hq. now rewrite <- (log_find_dat b b' q H). Qed.
Lemma layout_dat b b' : dat b = dat b' -> layout_ok b -> layout_ok b'.
Proof.
  unfold dat, layout_ok, chunk_at. intros H. injection H as H1 H2. rewrite <- H1, <- H2. auto.
Qed.

Lemma tree_put_dat b h s : dat (tree_put b h s) = dat b. Proof. reflexivity. Qed.

Section LM.
Variable cf : cfg.
Variable hf : bytes -> N.

Lemma bkt_set_log b h r vh : layout_ok b ->
  log_le b (bkt_set cf b h r vh) /\ layout_ok (bkt_set cf b h r vh).
Proof.
  intros Hlay. unfold bkt_set. pose proof (append_record_spec cf b r Hlay) as Happ.
  destruct (append_record cf b r) as [b1 p]. destruct Happ as (Hlay1 & _ & Hpres & _).
  set (b2 := tree_put b1 h _).
  assert (Hd : dat b1 = dat (hints_set cf b2 h (d_key r) (d_ver r) vh p (dsize r) false)).
  { rewrite hints_set_dat. reflexivity. }
  split.
  - eapply log_le_trans; [exact Hpres|]. apply log_le_dat, Hd.
  - apply (layout_dat b1 _ Hd Hlay1).
Qed.

Lemma bkt_get_dat b key : dat (fst (bkt_get hf b key)) = dat b.
Proof.
  unfold bkt_get. destruct (bkt_get_mem b (hf key) key) as [[[ver vh] p]|]; [|reflexivity].
  destruct (read_pos b p) as [r inb| |]; try reflexivity.
  destruct (bytes_eqb (d_key r) key); [reflexivity|].
  destruct (negb _). { destruct (_ && _); reflexivity. }
  destruct (hints_get b (hf key) key) as [[it ck]|]; [|reflexivity].
  destruct (read_pos _ _); reflexivity.
Qed.

Lemma check_and_set_log so b key val flag rev ts z : layout_ok b ->
  let b' := fst (check_and_set_gen so cf hf b key val flag rev ts z) in
  log_le b b' /\ layout_ok b'.
Proof.
  intros Hlay. cbv zeta. unfold check_and_set_gen.
  destruct (bkt_get_mem b (hf key) key) as [[[ov ovh] op]|].
  - destruct (_ && c_checkvhash cf).
    + destruct (negb (rev =? 0)%Z); cbn [fst].
      * split; [apply log_le_dat; reflexivity|apply (layout_dat b); [reflexivity|exact Hlay]].
      * split; [apply log_le_refl|exact Hlay].
    + destruct (next_version ov rev) as [ver|]; [|split; [apply log_le_refl|exact Hlay]].
      destruct (_ && _); [split; [apply log_le_refl|exact Hlay]|]. cbn [fst]. apply bkt_set_log, Hlay.
  - destruct (_ && c_checkvhash cf); [split; [apply log_le_refl|exact Hlay]|].
    destruct (next_version 0 rev) as [ver|]; [|split; [apply log_le_refl|exact Hlay]].
    destruct (_ && _); [split; [apply log_le_refl|exact Hlay]|]. cbn [fst]. apply bkt_set_log, Hlay.
Qed.

Lemma bkt_incr_log b key d ts : layout_ok b ->
  let b' := fst (bkt_incr cf hf b key d ts) in log_le b b' /\ layout_ok b'.
Proof.
  intros Hlay. cbv zeta. unfold bkt_incr. pose proof (bkt_get_dat b key) as Hd.
  destruct (bkt_get hf b key) as [b1 g]. cbn [fst] in Hd.
  assert (Hl1 : layout_ok b1) by (apply (layout_dat b); [now symmetry|exact Hlay]).
  assert (Hle : log_le b b1) by (apply log_le_dat; now symmetry).
  assert (Hset : forall r vh, log_le b (bkt_set cf b1 (hf key) r vh) /\ layout_ok (bkt_set cf b1 (hf key) r vh)).
  { intros r vh. destruct (bkt_set_log b1 (hf key) r vh Hl1) as [H1 H2]. split; [eapply log_le_trans; eassumption|exact H2]. }
  destruct (match g with GHit v fl ver _ _ => if (0 <? ver)%Z then Some (v, fl, ver) else None | _ => None end) as [[[v fl] ver]|].
  - destruct (22 <? lenN v); [split; assumption|].
    destruct (_ || _); [split; assumption|]. cbn [fst]. apply Hset.
  - destruct (match g with GFail => true | _ => false end); [split; assumption|]. cbn [fst]. apply Hset.
Qed.

Lemma flush_head_log b p : log_find (flush_head b) p = log_find b p.
Proof.
  unfold flush_head. destruct (wbuf_total b =? 0); [reflexivity|].
  destruct (k_wbuf (chunk_at b (b_head b))) eqn:Ew; [|apply flush_chunk_log].
  unfold log_find. destruct (Nat.eq_dec (b_head b) (p_chunk p)) as [<-|Hne].
  - rewrite chunk_at_set_same. unfold all_recs. cbn [k_disk k_wbuf]. now rewrite Ew.
  - now rewrite chunk_at_set_other.
Qed.
End LM.

(* ---- converse: the only record a write adds to the log is its own ---- *)
Definition log_adds (b b' : bucket) (r : drec) : Prop :=
  forall q r0, log_find b' q = Some r0 -> r0 = r \/ log_find b q = Some r0.

Lemma append_record_only cf b r : layout_ok b -> log_adds b (fst (append_record cf b r)) r.
Proof.
  intros [Hok Habove] q r0. unfold append_record.
  destruct (c_filemax cf <? k_whead (chunk_at b (b_head b)) + dsize r) eqn:Erot; cbn [fst].
  - set (b0 := set_head b (S (b_head b))). set (b1 := flush_chunk b0 (b_head b)).
    assert (Hh1 : b_head b1 = S (b_head b)) by (unfold b1; rewrite (proj1 (flush_chunk_misc b0 (b_head b))); reflexivity).
    assert (Hnew : chunk_at b1 (b_head b1) = chunk0).
    { rewrite Hh1. unfold b1. rewrite flush_chunk_eq. destruct (k_wbuf (chunk_at b0 (b_head b))).
      - apply Habove. lia.
      - rewrite chunk_at_set_other by lia. apply Habove. lia. }
    rewrite Hnew. unfold log_find. destruct (Nat.eq_dec (b_head b1) (p_chunk q)) as [E|Hne].
    + rewrite <- E, chunk_at_set_same. unfold all_recs. cbn [k_disk k_wbuf chunk0 app find_off].
      destruct (0 =? p_off q); [|discriminate]. intros H; injection H as <-. now left.
    + rewrite chunk_at_set_other by exact Hne. fold (log_find b1 q). unfold b1. rewrite flush_chunk_log. intros H. now right.
  - set (k := chunk_at b (b_head b)).
    change (mkChunk (k_exists k) (k_disk k) (k_fsize k) (k_wbuf k ++ [(k_whead k, r)])
                    (k_whead k + dsize r) (k_whead k + dsize r) (k_rewriting k)) with (chunk_append k r).
    unfold log_find. destruct (Nat.eq_dec (b_head b) (p_chunk q)) as [E|Hne].
    + rewrite <- E, chunk_at_set_same, chunk_append_find by apply Hok. fold k.
      destruct (find_off (all_recs k) (p_off q)); [intros H; now right|].
      destruct (k_whead k =? p_off q); [|discriminate]. intros H; injection H as <-. now left.
    + rewrite chunk_at_set_other by exact Hne. intros H. now right.
Qed.

Lemma bkt_set_only cf b h r vh : layout_ok b -> log_adds b (bkt_set cf b h r vh) r.
Proof.
  intros Hlay q r0. unfold bkt_set. pose proof (append_record_only cf b r Hlay q r0) as H.
  destruct (append_record cf b r) as [b1 p]. cbn [fst] in H.
  rewrite (log_find_dat _ b1); [exact H|]. rewrite hints_set_dat. reflexivity.
Qed.
