(* the GC pass with an insertion point (CheckGcSplit.gc_pass_i) IS the sequential pass when nothing is inserted *)
From Coq Require Import NArith ZArith List Bool.
From GB Require Import Consts Words Hash HintFile HTree Compress Bucket BucketOpen Gc GcSplit CheckL2 CheckGcSplit GcSplitProofs.
Import ListNotations.
Open Scope N_scope.

Section I.
Variable lc : l2cfg.
Let cf := l_cfg lc.
Let hf := forced_hash (l_forced lc).

Lemma gc_record_i_none begin_ src st out e :
  gc_record_i lc begin_ src (st, None, out) e = (gc_record cf hf begin_ src st e, None, out).
Proof.
  rewrite gc_record_split_eq. unfold gc_record_i, gc_record_split. fold cf hf.
  destruct (gc_record_copy cf hf begin_ src st e) as [st1 [m|]]; reflexivity.
Qed.

Lemma gc_records_i_none begin_ src recs : forall st out,
  fold_left (gc_record_i lc begin_ src) recs (st, None, out) = (fold_left (gc_record cf hf begin_ src) recs st, None, out).
Proof.
  induction recs as [|e recs IH]; intros st out; cbn [fold_left]; [reflexivity|].
  rewrite gc_record_i_none. apply IH.
Qed.

Lemma gc_file_i_none begin_ st out src :
  gc_file_i lc begin_ (st, None, out) src = (gc_file cf hf begin_ st src, None, out).
Proof.
  unfold gc_file_i, gc_file. fold cf hf. destruct (k_size (chunk_at (gc_b st) src) =? 0); [reflexivity|].
  rewrite gc_records_i_none. reflexivity.
Qed.

Lemma gc_files_i_none begin_ srcs : forall st out,
  fold_left (gc_file_i lc begin_) srcs (st, None, out) = (fold_left (gc_file cf hf begin_) srcs st, None, out).
Proof.
  induction srcs as [|s srcs IH]; intros st out; cbn [fold_left]; [reflexivity|].
  rewrite gc_file_i_none. apply IH.
Qed.

Theorem gc_pass_i_none b begin_ end_ merge :
  gc_pass_i lc b begin_ end_ merge None =
  (fst (gc_pass cf hf b begin_ end_ merge), snd (gc_pass cf hf b begin_ end_ merge), None, None).
Proof.
  unfold gc_pass_i, gc_pass. fold cf hf. rewrite gc_files_i_none. reflexivity.
Qed.
End I.
