(* C15: routing by the leading hex digits of the key hash. *)
From Coq Require Import NArith ZArith List Bool Lia ZifyN ZifyNat ZifyBool.
From GB Require Import Consts Words KeyPath Bits.
Import ListNotations.
Open Scope N_scope.

Ltac modlia := zify; Z.div_mod_to_equations; lia.

Lemma hexdigit_arith h i : i <= 15 -> hexdigit h i = (h / 2 ^ (4 * (15 - i))) mod 16.
Proof.
  intros _. unfold hexdigit. rewrite N.shiftr_div_pow2. change 15 with (N.ones 4) at 2. now rewrite N.land_ones.
Qed.

(* the bucket id is the hash shifted right by 64 - 4*depth bits: its leading hex digits *)
Lemma bucket_is_top_digits0 h : bucket_id 0 h = 0.
Proof. reflexivity. Qed.

Lemma bucket_is_top_digits1 h : h < 18446744073709551616 -> bucket_id 1 h = h / 1152921504606846976.
Proof.
  intros Hh. unfold bucket_id, bucket_of_path, path_of_hash. cbn [map firstn fold_left].
  rewrite hexdigit_arith by lia. change (2 ^ (4 * (15 - 0))) with 1152921504606846976. modlia.
Qed.

Lemma bucket_is_top_digits2 h : h < 18446744073709551616 -> bucket_id 2 h = h / 72057594037927936.
Proof.
  intros Hh. unfold bucket_id, bucket_of_path, path_of_hash. cbn [map firstn fold_left].
  rewrite !hexdigit_arith by lia.
  change (2 ^ (4 * (15 - 0))) with 1152921504606846976. change (2 ^ (4 * (15 - 1))) with 72057594037927936. modlia.
Qed.

Lemma bucket_id_lt1 h : h < 18446744073709551616 -> bucket_id 1 h < 16.
Proof. intros H. rewrite bucket_is_top_digits1 by exact H. modlia. Qed.
Lemma bucket_id_lt2 h : h < 18446744073709551616 -> bucket_id 2 h < 256.
Proof. intros H. rewrite bucket_is_top_digits2 by exact H. modlia. Qed.

(* distinct buckets have distinct directories *)
Lemma hexc_inj a b : a < 16 -> b < 16 -> hexc a = hexc b -> a = b.
Proof. intros Ha Hb. unfold hexc. destruct (a <? 10) eqn:E1, (b <? 10) eqn:E2; intros H; lia. Qed.

Lemma bucket_dir_injective nb b1 b2 d :
  (nb = 16 \/ nb = 256) -> b1 < nb -> b2 < nb ->
  bucket_dir nb b1 = Some d -> bucket_dir nb b2 = Some d -> b1 = b2.
Proof.
  intros [->| ->] H1 H2; unfold bucket_dir; cbn [N.eqb Pos.eqb]; intros E1 E2; rewrite <- E2 in E1; injection E1.
  - apply hexc_inj; assumption.
  - intros Hm Hd. apply hexc_inj in Hm; [|modlia|modlia]. apply hexc_inj in Hd; [|modlia|modlia]. modlia.
Qed.

(* the configured bucket counts give depths 0, 1, 2 *)
Lemma tree_depth_values : tree_depth 1 = 0%nat /\ tree_depth 16 = 1%nat /\ tree_depth 256 = 2%nat.
Proof. repeat split; reflexivity. Qed.

(* keys with different bucket ids can never share a bucket tree: the digits that select the bucket
   are the same digits the hash reconstruction puts back (hash_of_path of the path prefix) *)
Lemma hash_of_path_digits1 d : d < 16 -> hash_of_path [d] = d * 1152921504606846976.
Proof.
  intros H. unfold hash_of_path. cbn [fold_left fst]. rewrite N.lor_0_l, N.shiftl_mul_pow2. reflexivity.
Qed.
