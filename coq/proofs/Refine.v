(* C01: the bucket model refines the reference map (single client, no hash collisions). *)
From Coq Require Import NArith ZArith List Bool Lia ZifyN ZifyNat ZifyBool FMapPositive String.
From GB Require Import Consts Words Hash HintFile HTree Compress Bucket BucketOpen Gc CheckL2 RefMap Bits BucketBasics.
Import ListNotations.
Open Scope N_scope.

(* ---------------------------------------------- the hint side never touches data, tree, head *)
Definition core (b : bucket) := (b_chunks b, b_head b, b_tree b, b_ctab b).

Lemma set_hints_core b hs hm md : core (set_hints b hs hm md) = core b.
Proof. reflexivity. Qed.

Lemma trydump_core b c d : core (trydump b c d) = core b.
Proof.
  unfold trydump. destruct (dump_old _ _ _ _) as [sps md].
  destruct (_ || _); reflexivity.
Qed.

Lemma hints_set_item_core cf b it c rs : core (hints_set_item cf b it c rs) = core b.
Proof.
  unfold hints_set_item.
  destruct (split_set _ _ _ _) as [sp|]; cbn zeta.
  - destruct (Nat.ltb _ _); reflexivity.
  - rewrite (surjective_pairing (core _)).
    destruct (Nat.ltb _ _); cbn [set_hints]; rewrite ?set_hints_core, trydump_core; reflexivity.
Qed.

Lemma hints_set_core cf b h key ver vh p rs : b_ctab b = [] ->
  core (hints_set cf b h key ver vh p rs false) = core b.
Proof.
  intros Hct. unfold hints_set. rewrite Hct. cbn [ct_has_hash existsb]. apply hints_set_item_core.
Qed.

Lemma core_chunk_at b b' c : core b = core b' -> chunk_at b c = chunk_at b' c.
Proof. unfold core, chunk_at. intros H. now injection H as -> _ _ _. Qed.
Lemma core_head b b' : core b = core b' -> b_head b = b_head b'.
Proof. unfold core. intros H. now injection H. Qed.
Lemma core_tree b b' h : core b = core b' -> tree_get_slot b h = tree_get_slot b' h.
Proof. unfold core, tree_get_slot. intros H. now injection H as _ _ -> _. Qed.
Lemma core_ctab b b' : core b = core b' -> b_ctab b = b_ctab b'.
Proof. unfold core. intros H. now injection H. Qed.

(* ---------------------------------------------- tree as a map *)
Lemma succ_pos_inj a b : N.succ_pos a = N.succ_pos b -> a = b.
Proof. intros H. apply (f_equal Npos) in H. rewrite !N.succ_pos_spec in H. lia. Qed.

Lemma tree_put_same b h s : tree_get_slot (tree_put b h s) h = Some s.
Proof. unfold tree_get_slot, tree_put, set_tree. cbn [b_tree]. apply PM.gss. Qed.
Lemma tree_put_other b h h' s : h <> h' -> tree_get_slot (tree_put b h s) h' = tree_get_slot b h'.
Proof.
  intros Hne. unfold tree_get_slot, tree_put, set_tree. cbn [b_tree]. apply PM.gso.
  intros E. apply succ_pos_inj in E. congruence.
Qed.
Lemma tree_put_chunks b h s c : chunk_at (tree_put b h s) c = chunk_at b c.
Proof. reflexivity. Qed.

Section Refine.
Variable cf : cfg.
Variable hf : bytes -> N.
Variable K : list bytes.
Hypothesis hf_inj : forall k1 k2, In k1 K -> In k2 K -> hf k1 = hf k2 -> k1 = k2.

Definition log_find (b : bucket) (p : pos) : option drec :=
  find_off (all_recs (chunk_at b (p_chunk p))) (p_off p).

Definition layout_ok (b : bucket) : Prop :=
  (forall c, chunk_ok (chunk_at b c)) /\ (forall c, (b_head b < c)%nat -> chunk_at b c = chunk0).

Definition slot_ok (b : bucket) (h : N) (s : slot) : Prop :=
  exists r, log_find b (s_pos s) = Some r /\ hf (d_key r) = h /\ In (d_key r) K /\
            ((0 < s_ver s)%Z -> s_vh s = vhash (d_val r)) /\
            ((s_ver s < 0)%Z -> d_val r = [] /\ d_flag r = 0) /\ s_ver s <> 0%Z.

Definition Inv (b : bucket) : Prop :=
  layout_ok b /\ b_ctab b = [] /\ (forall h s, tree_get_slot b h = Some s -> slot_ok b h s).

(* abstraction: what the reference map holds for key k *)
Definition abs (b : bucket) (k : bytes) : option sentry :=
  match tree_get_slot b (hf k) with
  | Some s => match log_find b (s_pos s) with
              | Some r => Some (mkE (d_val r) (client_flag (d_flag r)) (s_ver s))
              | None => None
              end
  | None => None
  end.

Definition Rel (b : bucket) (m : smap) : Prop := Inv b /\ forall k, In k K -> abs b k = s_get m k.

(* ---- reads ---- *)
Lemma read_pos_log b p : layout_ok b ->
  rd_rec (read_pos b p) = log_find b p /\ (rd_ok (read_pos b p) = false -> read_pos b p = RFail).
Proof. intros [Hl _]. unfold read_pos, log_find. apply chunk_read_spec, Hl. Qed.

Lemma bkt_get_spec b m k : Rel b m -> In k K ->
  fst (bkt_get hf b k) = b /\
  match s_get m k with
  | None => snd (bkt_get hf b k) = GMiss
  | Some e => exists ts p, snd (bkt_get hf b k) = GHit (e_val e) (e_flag e) (e_ver e) ts p
  end.
Proof.
  intros [[Hlay [Hct Hslots]] Habs] Hk. specialize (Habs k Hk).
  unfold bkt_get, bkt_get_mem. rewrite Hct. cbn [ct_get find]. unfold abs in Habs.
  destruct (tree_get_slot b (hf k)) as [s|] eqn:Es.
  - destruct (Hslots _ _ Es) as (r & Hlog & Hh & HinK & _).
    rewrite Hlog in Habs.
    destruct (read_pos_log b (s_pos s) Hlay) as [Hrd Hfail]. rewrite Hlog in Hrd.
    destruct (read_pos b (s_pos s)) as [r' inb| |]; cbn [rd_rec] in Hrd; try discriminate.
    injection Hrd as ->.
    assert (d_key r = k) by (apply hf_inj; assumption). subst k.
    rewrite bytes_eqb_refl. rewrite <- Habs. cbn [fst snd e_val e_flag e_ver].
    split; [reflexivity|eauto].
  - rewrite <- Habs. split; reflexivity.
Qed.

(* ---- appending ---- *)
Lemma flush_chunk_eq b c :
  flush_chunk b c = match k_wbuf (chunk_at b c) with [] => b | _ => set_chunk b c (chunk_flush (chunk_at b c)) end.
Proof. unfold flush_chunk, chunk_flush. destruct (k_wbuf (chunk_at b c)); reflexivity. Qed.

Lemma flush_chunk_layout b c : layout_ok b -> (c <= b_head b)%nat -> layout_ok (flush_chunk b c).
Proof.
  intros [Hok Habove] Hc. rewrite flush_chunk_eq. destruct (k_wbuf (chunk_at b c)) eqn:Ew; [split; assumption|].
  split.
  - intros c'. destruct (Nat.eq_dec c c') as [<-|Hne].
    + rewrite chunk_at_set_same. apply chunk_flush_ok, Hok.
    + rewrite chunk_at_set_other by exact Hne. apply Hok.
  - intros c' Hc'. cbn [b_head set_chunk set_chunks] in Hc'. rewrite chunk_at_set_other by lia. now apply Habove.
Qed.

Lemma flush_chunk_log b c p : log_find (flush_chunk b c) p = log_find b p.
Proof.
  rewrite flush_chunk_eq. destruct (k_wbuf (chunk_at b c)) eqn:Ew; [reflexivity|].
  unfold log_find. destruct (Nat.eq_dec c (p_chunk p)) as [<-|Hne].
  - now rewrite chunk_at_set_same, chunk_flush_recs.
  - now rewrite chunk_at_set_other.
Qed.

Lemma flush_chunk_misc b c : b_head (flush_chunk b c) = b_head b /\ b_tree (flush_chunk b c) = b_tree b /\ b_ctab (flush_chunk b c) = b_ctab b.
Proof. rewrite flush_chunk_eq. destruct (k_wbuf _); repeat split. Qed.

Lemma append_record_spec b r : layout_ok b ->
  let '(b', p) := append_record cf b r in
  layout_ok b' /\ log_find b' p = Some r /\
  (forall q r0, log_find b q = Some r0 -> log_find b' q = Some r0) /\
  b_tree b' = b_tree b /\ b_ctab b' = b_ctab b.
Proof.
  intros Hlay. pose proof Hlay as [Hok Habove]. unfold append_record.
  destruct (c_filemax cf <? k_whead (chunk_at b (b_head b)) + dsize r) eqn:Erot.
  - (* rotation *)
    set (b0 := set_head b (S (b_head b))).
    assert (Hlay0 : layout_ok b0).
    { split; [exact Hok|]. intros c Hc. apply Habove. unfold b0 in Hc. cbn [b_head set_head] in Hc. lia. }
    pose proof (flush_chunk_layout b0 (b_head b) Hlay0 ltac:(unfold b0; cbn [b_head set_head]; lia)) as Hlay1.
    set (b1 := flush_chunk b0 (b_head b)) in *.
    destruct (flush_chunk_misc b0 (b_head b)) as (Hh1 & Ht1 & Hc1). fold b1 in Hh1, Ht1, Hc1.
    assert (Hhead1 : b_head b1 = S (b_head b)) by (rewrite Hh1; reflexivity).
    assert (Hnew : chunk_at b1 (b_head b1) = chunk0).
    { rewrite Hhead1. unfold b1. rewrite flush_chunk_eq.
      destruct (k_wbuf (chunk_at b0 (b_head b))).
      - apply Habove. lia.
      - rewrite chunk_at_set_other by lia. apply Habove. lia. }
    rewrite Hnew. change (k_whead chunk0) with 0. change (0 + dsize r) with (k_whead chunk0 + dsize r).
    change (mkChunk (k_exists chunk0) (k_disk chunk0) (k_fsize chunk0) (k_wbuf chunk0 ++ [(0, r)])
                    (k_whead chunk0 + dsize r) (k_whead chunk0 + dsize r) (k_rewriting chunk0))
      with (chunk_append chunk0 r).
    destruct Hlay1 as [Hok1 Habove1].
    split; [split|split; [|split; [|split]]].
    + intros c. destruct (Nat.eq_dec (b_head b1) c) as [<-|Hne].
      * rewrite chunk_at_set_same. apply chunk_append_ok, chunk0_ok.
      * rewrite chunk_at_set_other by exact Hne. apply Hok1.
    + intros c Hc. cbn [b_head set_chunk set_chunks] in Hc. rewrite chunk_at_set_other by lia. apply Habove1. exact Hc.
    + unfold log_find. cbn [p_chunk p_off]. rewrite chunk_at_set_same. reflexivity.
    + intros q r0 Hq. unfold log_find. destruct (Nat.eq_dec (b_head b1) (p_chunk q)) as [E|Hne].
      * exfalso. unfold log_find in Hq. rewrite <- E, Hhead1 in Hq. rewrite (Habove (S (b_head b))) in Hq by lia. discriminate.
      * rewrite chunk_at_set_other by exact Hne. fold (log_find b1 q). unfold b1. rewrite flush_chunk_log. exact Hq.
    + cbn [b_tree set_chunk set_chunks]. exact Ht1.
    + cbn [b_ctab set_chunk set_chunks]. exact Hc1.
  - (* same chunk *)
    set (k := chunk_at b (b_head b)).
    change (mkChunk (k_exists k) (k_disk k) (k_fsize k) (k_wbuf k ++ [(k_whead k, r)])
                    (k_whead k + dsize r) (k_whead k + dsize r) (k_rewriting k)) with (chunk_append k r).
    split; [split|split; [|split; [|split]]]; [| | | |reflexivity|reflexivity].
    + intros c. destruct (Nat.eq_dec (b_head b) c) as [<-|Hne].
      * rewrite chunk_at_set_same. apply chunk_append_ok, Hok.
      * rewrite chunk_at_set_other by exact Hne. apply Hok.
    + intros c Hc. cbn [b_head set_chunk set_chunks] in Hc. rewrite chunk_at_set_other by lia. now apply Habove.
    + unfold log_find. cbn [p_chunk p_off]. rewrite chunk_at_set_same, chunk_append_find by apply Hok.
      fold k. rewrite (find_whead_none k (Hok _)), N.eqb_refl. reflexivity.
    + intros q r0 Hq. unfold log_find in *. destruct (Nat.eq_dec (b_head b) (p_chunk q)) as [E|Hne].
      * rewrite <- E, chunk_at_set_same, chunk_append_find by apply Hok. fold k. rewrite <- E in Hq. fold k in Hq. now rewrite Hq.
      * now rewrite chunk_at_set_other.
Qed.

(* ---- invariants only look at the core ---- *)
Lemma log_find_core b b' p : core b = core b' -> log_find b p = log_find b' p.
Proof. intros H. unfold log_find. now rewrite (core_chunk_at b b' _ H). Qed.

Lemma layout_core b b' : core b = core b' -> layout_ok b -> layout_ok b'.
Proof.
  intros H [Hok Hab]. split.
  - intros c. rewrite <- (core_chunk_at b b' c H). apply Hok.
  - intros c Hc. rewrite <- (core_chunk_at b b' c H). apply Hab. now rewrite (core_head b b' H).
Qed.

Lemma slot_ok_core b b' h s : core b = core b' -> slot_ok b h s -> slot_ok b' h s.
Proof. intros H (r & Hl & Hrest). exists r. split; [now rewrite <- (log_find_core b b' _ H)|exact Hrest]. Qed.

Lemma Inv_core b b' : core b = core b' -> Inv b -> Inv b'.
Proof.
  intros H (Hl & Hc & Hs). split; [now apply (layout_core b b')|]. split; [now rewrite <- (core_ctab b b' H)|].
  intros h s Hts. rewrite <- (core_tree b b' h H) in Hts. apply (slot_ok_core b b' h s H). now apply Hs.
Qed.

Lemma abs_core b b' k : core b = core b' -> abs b k = abs b' k.
Proof.
  intros H. unfold abs. rewrite (core_tree b b' _ H). destruct (tree_get_slot b' (hf k)); [|reflexivity].
  now rewrite (log_find_core b b' _ H).
Qed.

Lemma Rel_core b b' m : core b = core b' -> Rel b m -> Rel b' m.
Proof.
  intros H [Hi Ha]. split; [now apply (Inv_core b b')|]. intros k Hk. rewrite <- (abs_core b b' k H). now apply Ha.
Qed.

Lemma s_get_put m k e k' : s_get (s_put m k e) k' = if list_eq_dec N.eq_dec k k' then Some e else s_get m k'.
Proof. reflexivity. Qed.

(* ---- bucket.set ---- *)
Lemma bkt_set_rel b m key r vh :
  Rel b m -> In key K -> d_key r = key ->
  d_ver r <> 0%Z -> ((0 < d_ver r)%Z -> vh = vhash (d_val r)) -> ((d_ver r < 0)%Z -> d_val r = [] /\ d_flag r = 0) ->
  Rel (bkt_set cf b (hf key) r vh) (s_put m key (mkE (d_val r) (client_flag (d_flag r)) (d_ver r))).
Proof.
  intros [(Hlay & Hct & Hslots) Habs] Hk Hkey Hv0 Hvpos Hvneg. unfold bkt_set.
  pose proof (append_record_spec b r Hlay) as Happ.
  destruct (append_record cf b r) as [b1 p]. destruct Happ as (Hlay1 & Hp & Hpres & Ht1 & Hc1).
  set (sl := mkSlot p (d_ver r) vh).
  set (b2 := tree_put b1 (hf key) sl).
  assert (Hcore : core (hints_set cf b2 (hf key) (d_key r) (d_ver r) vh p (dsize r) false) = core b2).
  { apply hints_set_core. unfold b2. cbn [b_ctab tree_put set_tree]. now rewrite Hc1. }
  apply (Rel_core b2 _ _ (eq_sym Hcore)).
  assert (Hslot_new : slot_ok b2 (hf key) sl).
  { exists r. unfold sl. cbn [s_pos s_ver s_vh]. rewrite Hkey. split; [exact Hp|]. split; [reflexivity|]. split; [exact Hk|]. split; [exact Hvpos|]. split; [exact Hvneg|exact Hv0]. }
  assert (Htree1 : forall h, tree_get_slot b1 h = tree_get_slot b h) by (intros h; unfold tree_get_slot; now rewrite Ht1).
  split.
  - split; [exact Hlay1|]. split; [unfold b2; cbn [b_ctab tree_put set_tree]; now rewrite Hc1|].
    intros h s Hts. destruct (N.eq_dec (hf key) h) as [<-|Hne].
    + unfold b2 in Hts. rewrite tree_put_same in Hts. injection Hts as <-. exact Hslot_new.
    + unfold b2 in Hts. rewrite tree_put_other in Hts by exact Hne. rewrite Htree1 in Hts.
      destruct (Hslots _ _ Hts) as (r0 & Hl0 & Hrest). exists r0. split; [|exact Hrest].
      apply Hpres. exact Hl0.
  - intros k HkK. rewrite s_get_put. unfold abs.
    destruct (list_eq_dec N.eq_dec key k) as [<-|Hne].
    + unfold b2. rewrite tree_put_same. unfold sl. cbn [s_pos s_ver].
      change (log_find (tree_put b1 (hf key) {| s_pos := p; s_ver := d_ver r; s_vh := vh |}) p) with (log_find b1 p).
      now rewrite Hp.
    + assert (Hh : hf key <> hf k) by (intros E; apply Hne; now apply hf_inj).
      unfold b2. rewrite tree_put_other by exact Hh. rewrite Htree1.
      specialize (Habs k HkK). unfold abs in Habs.
      destruct (tree_get_slot b (hf k)) as [s|] eqn:Es; [|exact Habs].
      change (log_find (tree_put b1 (hf key) sl) (s_pos s)) with (log_find b1 (s_pos s)).
      destruct (Hslots _ _ Es) as (r0 & Hl0 & _). rewrite (Hpres _ _ Hl0). now rewrite Hl0 in Habs.
Qed.

(* ---- flags ---- *)
Lemma client_flag_stored flag c : N.land flag flag_compress = 0 -> client_flag (stored_flag flag c) = flag.
Proof.
  intros H. unfold client_flag, stored_flag. destruct c.
  - rewrite <- lor_add_disjoint by exact H.
    rewrite N.land_lor_distr_l, H, N.land_diag, N.lor_0_l.
    change (flag_compress =? 0) with false. cbn match.
    rewrite lor_add_disjoint by exact H. lia.
  - now rewrite H.
Qed.

(* ---- tree-only version update (check_vhash, same value, explicit revision) ---- *)
Lemma tree_put_rel b m key s e rev :
  Rel b m -> In key K -> tree_get_slot b (hf key) = Some s -> s_get m key = Some e ->
  (0 < rev)%Z -> (0 < s_ver s)%Z ->
  Rel (tree_put b (hf key) (mkSlot (s_pos s) rev (s_vh s))) (s_put m key (mkE (e_val e) (e_flag e) rev)).
Proof.
  intros [(Hlay & Hct & Hslots) Habs] Hk Hs He Hrev Hlive.
  destruct (Hslots _ _ Hs) as (r0 & Hl0 & Hh0 & Hin0 & Hvp & Hvn & Hv0).
  pose proof (Habs key Hk) as Hak. unfold abs in Hak. rewrite Hs, Hl0, He in Hak. injection Hak as Hak.
  split.
  - split; [exact Hlay|]. split; [exact Hct|].
    intros h s' Hts. destruct (N.eq_dec (hf key) h) as [<-|Hne].
    + rewrite tree_put_same in Hts. injection Hts as <-. exists r0. cbn [s_pos s_ver s_vh].
      split; [exact Hl0|]. split; [exact Hh0|]. split; [exact Hin0|].
      split; [intros _; now apply Hvp|]. split; [intros; lia|lia].
    + rewrite tree_put_other in Hts by exact Hne. now apply Hslots.
  - intros k HkK. rewrite s_get_put. unfold abs.
    destruct (list_eq_dec N.eq_dec key k) as [<-|Hne].
    + rewrite tree_put_same. cbn [s_pos s_ver].
      change (log_find (tree_put b (hf key) _) (s_pos s)) with (log_find b (s_pos s)).
      rewrite Hl0. rewrite <- Hak. reflexivity.
    + assert (Hh : hf key <> hf k) by (intros E; apply Hne; now apply hf_inj).
      rewrite tree_put_other by exact Hh. apply (Habs k HkK).
Qed.

(* ---- the abstraction in terms of the slot ---- *)
Lemma abs_slot b m k : Rel b m -> In k K ->
  match tree_get_slot b (hf k) with
  | Some s => exists r, log_find b (s_pos s) = Some r /\ s_get m k = Some (mkE (d_val r) (client_flag (d_flag r)) (s_ver s)) /\
                        ((0 < s_ver s)%Z -> s_vh s = vhash (d_val r)) /\ s_ver s <> 0%Z
  | None => s_get m k = None
  end.
Proof.
  intros [(Hlay & Hct & Hslots) Habs] Hk. specialize (Habs k Hk). unfold abs in Habs.
  destruct (tree_get_slot b (hf k)) as [s|] eqn:Es; [|now rewrite <- Habs].
  destruct (Hslots _ _ Es) as (r0 & Hl0 & _ & _ & Hvp & _ & Hv0).
  exists r0. rewrite Hl0 in Habs. repeat split; auto.
Qed.

Lemma bkt_get_mem_tree b h key : b_ctab b = [] ->
  bkt_get_mem b h key = match tree_get_slot b h with Some s => Some (s_ver s, s_vh s, s_pos s) | None => None end.
Proof. intros Hc. unfold bkt_get_mem. now rewrite Hc. Qed.

Lemma next_version_pos oldv rev ver : (0 <= rev)%Z -> next_version oldv rev = Some ver -> (0 < ver)%Z.
Proof.
  intros Hr. unfold next_version, zabs.
  destruct (rev =? 0)%Z eqn:E0.
  - destruct (0 <=? oldv)%Z eqn:E1; intros H; injection H as <-; lia.
  - destruct (rev <? 0)%Z eqn:E1; [lia|].
    destruct (Z.abs rev <=? Z.abs oldv)%Z; [discriminate|]. intros H; injection H as <-. lia.
Qed.

Ltac finish_set r :=
  match goal with
  | |- Rel (bkt_set _ _ _ r ?vh) (s_put ?m ?key (mkE ?val ?flag ?ver)) =>
      replace (mkE val flag ver) with (mkE (d_val r) (client_flag (d_flag r)) (d_ver r))
        by (unfold r; cbn [d_val d_flag d_ver]; f_equal; apply client_flag_stored; assumption);
      apply bkt_set_rel; try assumption; try reflexivity; unfold r; cbn [d_ver d_val d_flag]; try lia
  end.

Lemma check_and_set_set b m key val flag rev ts z :
  Rel b m -> In key K -> N.land flag flag_compress = 0 -> (0 <= rev)%Z ->
  let '(b', r) := check_and_set cf hf b key val flag rev ts z in
  let '(m', o) := spec_step (c_checkvhash cf) m (SSet key val flag rev) in
  r = SStored /\ o = PStored /\ Rel b' m'.
Proof.
  intros HR Hk Hflag Hrev. pose proof HR as [(Hlay & Hct & Hslots) Habs].
  pose proof (abs_slot b m key HR Hk) as Hslot.
  unfold check_and_set, check_and_set_gen, spec_step. change vhash_shortcut_sets_only with true. cbv iota.
  rewrite (bkt_get_mem_tree b (hf key) key Hct).
  replace (0 <=? rev)%Z with true by (symmetry; apply Z.leb_le; exact Hrev). rewrite !andb_true_l.
  destruct (tree_get_slot b (hf key)) as [s|] eqn:Es.
  - destruct Hslot as (r0 & Hl0 & Hm & Hvp & Hv0). rewrite Hm. cbn [e_ver e_val e_flag].
    unfold live. cbn [e_ver].
    assert (Esame : (0 <? s_ver s)%Z && (vhash val =? s_vh s) = (0 <? s_ver s)%Z && (vhash val =? vhash (d_val r0))).
    { destruct (0 <? s_ver s)%Z eqn:El; [|reflexivity]. cbn [andb]. rewrite Hvp by (apply Z.ltb_lt; exact El). reflexivity. }
    rewrite Esame.
    destruct ((0 <? s_ver s)%Z && (vhash val =? vhash (d_val r0))) eqn:Es2; cbn [andb].
    + destruct (c_checkvhash cf) eqn:Ecv.
      * (* same value, check_vhash *)
        apply andb_prop in Es2 as [El Ev]. apply Z.ltb_lt in El. apply N.eqb_eq in Ev.
        destruct (rev =? 0)%Z eqn:E0; cbn [negb].
        -- (split; [reflexivity|split; [reflexivity|exact HR]]).
        -- split; [reflexivity|]. split; [reflexivity|].
           assert (Hrp : (0 < rev)%Z) by (apply Z.eqb_neq in E0; lia).
           replace (vhash val) with (s_vh s) by (rewrite Hvp by exact El; now rewrite Ev).
           exact (tree_put_rel b m key s _ rev HR Hk Es Hm Hrp El).
      * (* same value but check_vhash off: ordinary write *)
        destruct (next_version (s_ver s) rev) as [ver|] eqn:Env.
        -- pose proof (next_version_pos _ _ _ Hrev Env) as Hvp'.
           replace (ver <? 0)%Z with false by (symmetry; apply Z.ltb_ge; lia). cbn [andb].
           split; [reflexivity|]. split; [reflexivity|].
           set (comp := compress_decide (lenN key) (lenN val) flag rev z).
           set (r := mkD key val (stored_flag flag (match comp with Some _ => true | None => false end)) ver ts
                         (match comp with Some n => n | None => lenN val end)).
           finish_set r.
        -- (split; [reflexivity|split; [reflexivity|exact HR]]).
    + destruct (next_version (s_ver s) rev) as [ver|] eqn:Env.
      * pose proof (next_version_pos _ _ _ Hrev Env) as Hvp'.
        replace (ver <? 0)%Z with false by (symmetry; apply Z.ltb_ge; lia). cbn [andb].
        split; [reflexivity|]. split; [reflexivity|].
        set (comp := compress_decide (lenN key) (lenN val) flag rev z).
        set (r := mkD key val (stored_flag flag (match comp with Some _ => true | None => false end)) ver ts
                      (match comp with Some n => n | None => lenN val end)).
        finish_set r.
      * (split; [reflexivity|split; [reflexivity|exact HR]]).
  - rewrite Hslot. cbn [andb].
    destruct (next_version 0 rev) as [ver|] eqn:Env.
    + pose proof (next_version_pos _ _ _ Hrev Env) as Hvp'.
      replace (ver <? 0)%Z with false by (symmetry; apply Z.ltb_ge; lia). cbn [andb].
      split; [reflexivity|]. split; [reflexivity|].
      set (comp := compress_decide (lenN key) (lenN val) flag rev z).
      set (r := mkD key val (stored_flag flag (match comp with Some _ => true | None => false end)) ver ts
                    (match comp with Some n => n | None => lenN val end)).
      finish_set r.
    + (split; [reflexivity|split; [reflexivity|exact HR]]).
Qed.

Lemma check_and_set_del b m key ts z :
  Rel b m -> In key K ->
  let '(b', r) := check_and_set cf hf b key [] 0 (-1)%Z ts z in
  let '(m', o) := spec_step (c_checkvhash cf) m (SDel key) in
  ((r = SStored /\ o = PDeleted) \/ (r = SNotFound /\ o = PNotFound)) /\ Rel b' m'.
Proof.
  intros HR Hk. pose proof HR as [(Hlay & Hct & Hslots) Habs].
  pose proof (abs_slot b m key HR Hk) as Hslot.
  unfold check_and_set, check_and_set_gen, spec_step in *. change vhash_shortcut_sets_only with true. cbv iota.
  rewrite (bkt_get_mem_tree b (hf key) key Hct).
  change (0 <=? -1)%Z with false. cbv iota. rewrite !andb_false_l.
  change (compress_decide (lenN key) (lenN []) 0 (-1) z) with (@None N).
  destruct (tree_get_slot b (hf key)) as [s|] eqn:Es.
  - destruct Hslot as (r0 & Hl0 & Hm & Hvp & Hv0). rewrite Hm in *. cbn [e_ver e_val e_flag] in *.
    unfold live in *. cbn [e_ver] in *.
    unfold next_version. change (-1 =? 0)%Z with false. change (-1 <? 0)%Z with true. cbv iota.
    destruct (0 <? s_ver s)%Z eqn:El.
    + apply Z.ltb_lt in El.
      replace (- zabs (s_ver s) - 1 <? 0)%Z with true by (symmetry; apply Z.ltb_lt; unfold zabs; lia).
      replace (s_ver s <? 0)%Z with false by (symmetry; apply Z.ltb_ge; lia). cbn [andb].
      split; [left; split; reflexivity|].
      set (r := mkD key [] (stored_flag 0 false) (- zabs (s_ver s) - 1) ts (lenN (@nil N))).
      replace (mkE [] 0 (- Z.abs (s_ver s) - 1)%Z) with (mkE (d_val r) (client_flag (d_flag r)) (d_ver r)) by reflexivity.
      apply bkt_set_rel; try assumption; try reflexivity; unfold r, zabs; cbn [d_ver d_val d_flag]; try lia.
      intros _. split; reflexivity.
    + apply Z.ltb_ge in El.
      replace (- zabs (s_ver s) - 1 <? 0)%Z with true by (symmetry; apply Z.ltb_lt; unfold zabs; lia).
      replace (s_ver s <? 0)%Z with true by (symmetry; apply Z.ltb_lt; lia). cbn [andb].
      split; [right; split; reflexivity|exact HR].
  - rewrite Hslot. unfold next_version. change (-1 =? 0)%Z with false. change (-1 <? 0)%Z with true. cbv iota.
    change (- zabs 0 - 1 <? 0)%Z with true. cbn [andb].
    split; [right; split; reflexivity|exact HR].
Qed.

Lemma client_flag_incr : client_flag flag_incr = flag_incr.
Proof. reflexivity. Qed.

Lemma bkt_incr_spec b m key d ts :
  Rel b m -> In key K ->
  let '(b', n) := bkt_incr cf hf b key d ts in
  let '(m', o) := spec_step (c_checkvhash cf) m (SIncr key d) in
  o = PNum n /\ Rel b' m'.
Proof.
  intros HR Hk. destruct (bkt_get_spec b m key HR Hk) as [Hb Hg].
  unfold bkt_incr, spec_step. destruct (bkt_get hf b key) as [b1 g]. cbn [fst snd] in Hb, Hg. subst b1.
  destruct (s_get m key) as [e|] eqn:Em.
  - destruct Hg as (ts0 & p0 & ->). unfold live.
    destruct (0 <? e_ver e)%Z eqn:El.
    + destruct (22 <? lenN (e_val e)) eqn:E22; [split; [reflexivity|exact HR]|].
      destruct (e_flag e =? flag_incr) eqn:Ef; cbn [negb orb].
      * destruct (atoi (e_val e)) as [x|] eqn:Ea; [|split; [reflexivity|exact HR]].
        split; [reflexivity|].
        set (nv := wrap64 (d + x)).
        set (r := mkD key (itoa nv) flag_incr (e_ver e + 1) ts (lenN (itoa nv))).
        replace (mkE (itoa nv) flag_incr (e_ver e + 1)%Z) with (mkE (d_val r) (client_flag (d_flag r)) (d_ver r)) by reflexivity.
        apply Z.ltb_lt in El.
        apply bkt_set_rel; try assumption; try reflexivity; unfold r; cbn [d_ver d_val d_flag]; try lia.
      * split; [reflexivity|exact HR].
    + split; [reflexivity|].
      set (r := mkD key (itoa d) flag_incr 1 ts (lenN (itoa d))).
      replace (mkE (itoa d) flag_incr 1%Z) with (mkE (d_val r) (client_flag (d_flag r)) (d_ver r)) by reflexivity.
      apply bkt_set_rel; try assumption; try reflexivity; unfold r; cbn [d_ver d_val d_flag]; try lia.
  - rewrite Hg. split; [reflexivity|].
    set (r := mkD key (itoa d) flag_incr 1 ts (lenN (itoa d))).
    replace (mkE (itoa d) flag_incr 1%Z) with (mkE (d_val r) (client_flag (d_flag r)) (d_ver r)) by reflexivity.
    apply bkt_set_rel; try assumption; try reflexivity; unfold r; cbn [d_ver d_val d_flag]; try lia.
Qed.

(* ---- flush and hint dump do not change what any key reads ---- *)
Lemma flush_head_rel b m : Rel b m -> Rel (flush_head b) m.
Proof.
  intros HR. pose proof HR as [(Hlay & Hct & Hslots) Habs]. unfold flush_head.
  destruct (wbuf_total b =? 0); [exact HR|].
  destruct (k_wbuf (chunk_at b (b_head b))) eqn:Ew.
  - (* only makes sure the head file exists *)
    set (k := chunk_at b (b_head b)).
    set (k' := mkChunk true (k_disk k) (k_fsize k) [] (k_whead k) (k_size k) (k_rewriting k)).
    assert (Hrecs : all_recs k' = all_recs k) by (unfold all_recs, k'; cbn [k_disk k_wbuf]; unfold k; now rewrite Ew).
    assert (Hlog : forall p, log_find (set_chunk b (b_head b) k') p = log_find b p).
    { intros p. unfold log_find. destruct (Nat.eq_dec (b_head b) (p_chunk p)) as [<-|Hne].
      - now rewrite chunk_at_set_same, Hrecs.
      - now rewrite chunk_at_set_other. }
    destruct Hlay as [Hok Hab].
    split.
    + split; [split|split; [exact Hct|]].
      * intros c. destruct (Nat.eq_dec (b_head b) c) as [<-|Hne].
        -- rewrite chunk_at_set_same. destruct (Hok (b_head b)) as (Hd & Hw & He & Hle). fold k in Hd, Hw, He, Hle.
           unfold chunk_ok, k', wstart in *. cbn [k_disk k_wbuf k_whead k_exists]. unfold k in *. rewrite Ew in *.
           split; [exact Hd|]. split; [intros o r []|]. split; [discriminate|lia].
        -- rewrite chunk_at_set_other by exact Hne. apply Hok.
      * intros c Hc. cbn [b_head set_chunk set_chunks] in Hc. rewrite chunk_at_set_other by lia. now apply Hab.
      * intros h s Hts. destruct (Hslots h s Hts) as (r & Hl & Hrest). exists r. split; [now rewrite Hlog|exact Hrest].
    + intros k0 Hk0. rewrite <- (Habs k0 Hk0). unfold abs.
      change (tree_get_slot (set_chunk b (b_head b) k') (hf k0)) with (tree_get_slot b (hf k0)).
      destruct (tree_get_slot b (hf k0)); [|reflexivity]. now rewrite Hlog.
  - clear Ew.
    assert (Hlog : forall p, log_find (flush_chunk b (b_head b)) p = log_find b p) by (intros; apply flush_chunk_log).
    destruct (flush_chunk_misc b (b_head b)) as (Hh & Ht & Hc).
    split.
    + split; [apply flush_chunk_layout; [exact Hlay|lia]|]. split; [now rewrite Hc|].
      intros h s Hts. unfold tree_get_slot in Hts. rewrite Ht in Hts.
      destruct (Hslots h s Hts) as (r & Hl & Hrest). exists r. split; [now rewrite Hlog|exact Hrest].
    + intros k0 Hk0. rewrite <- (Habs k0 Hk0). unfold abs, tree_get_slot. rewrite Ht.
      destruct (PM.find (N.succ_pos (hf k0)) (b_tree b)); [|reflexivity]. now rewrite Hlog.
Qed.

Lemma trydump_all_core b l : core (fold_left (fun bb i => trydump bb i false) l b) = core b.
Proof.
  revert b. induction l as [|i l IH]; intros b; cbn [fold_left]; [reflexivity|].
  rewrite IH. apply trydump_core.
Qed.

End Refine.

(* ============================================================ the trace-level theorem *)
Definition sop_of (o : l2op) : option sop :=
  match o with
  | OSet k v flag rev _ _ => Some (SSet (unhex k) (unhex v) flag rev)
  | ODel k => Some (SDel (unhex k))
  | OIncr k d => Some (SIncr (unhex k) d)
  | OGet k => Some (SGet (unhex k))
  | OMeta k => Some (SMeta (unhex k))
  | OFlush | OHintDump | ODir => Some SNop
  | ORestart _ | OGcRange _ _ _ | OGc _ _ _ | OTree _ => None
  end.

Definition proj_out (o : l2out) : pout :=
  match o with
  | XStored => PStored | XNotStored => PErr | XErr => PErr | XDeleted => PDeleted | XNotFound => PNotFound
  | XNum z => PNum z | XMiss => PMiss | XHit v f => PHit (unhex v) f
  | XMeta ver vh fl ln _ _ _ => PMeta ver vh fl ln
  | XTree _ _ _ _ => POk
  | XOk => POk | XRefuse => PErr | XRange _ _ => POk | XGc _ _ _ _ => POk
  end.
Definition proj (m : mout) : pout := match m with MHit v f => PHit v f | MOut o => proj_out o end.

Section Run.
Variable lc : l2cfg.
Variable K : list bytes.
Let cf := l_cfg lc.
Let hf := forced_hash (l_forced lc).
Hypothesis hf_inj : forall k1 k2, In k1 K -> In k2 K -> hf k1 = hf k2 -> k1 = k2.

Definition op_ok (m : smap) (so : sop) : Prop :=
  match so with
  | SSet k _ flag rev => In k K /\ N.land flag flag_compress = 0 /\ (0 <= rev)%Z
  | SDel k => In k K
  | SIncr k _ | SGet k | SMeta k => In k K
  | SNop => True
  end.

Lemma rel_ver_nonzero b m k e : Rel hf K b m -> In k K -> s_get m k = Some e -> e_ver e <> 0%Z.
Proof.
  intros HR Hk He. pose proof (abs_slot hf K b m k HR Hk) as H.
  destruct (tree_get_slot b (hf k)) as [s|].
  - destruct H as (r & _ & Hm & _ & Hv0). rewrite He in Hm. injection Hm as ->. exact Hv0.
  - rewrite He in H. discriminate.
Qed.

Lemma step_refines b m o so :
  Rel hf K b m -> sop_of o = Some so -> op_ok m so ->
  exists b', fst (l2_step lc b o) = Some b' /\
             proj (snd (l2_step lc b o)) = snd (spec_step (c_checkvhash cf) m so) /\
             Rel hf K b' (fst (spec_step (c_checkvhash cf) m so)).
Proof.
  intros HR Hso Hok.
  destruct o; cbn [sop_of] in Hso; try discriminate; injection Hso as <-; cbn [op_ok] in Hok.
  - (* set *)
    destruct Hok as (Hk & Hfl & Hrev).
    pose proof (check_and_set_set cf hf K hf_inj b m (unhex k) (unhex v) flag rev ts z HR Hk Hfl Hrev) as H.
    unfold l2_step. fold cf hf. destruct (check_and_set cf hf b (unhex k) (unhex v) flag rev ts z) as [b' r].
    destruct (spec_step (c_checkvhash cf) m (SSet (unhex k) (unhex v) flag rev)) as [m' o'].
    destruct H as (-> & -> & HR'). exists b'. cbn [fst snd proj proj_out]. auto.
  - (* delete *)
    pose proof (check_and_set_del cf hf K hf_inj b m (unhex k) ts_now (mkZ false 0 0) HR Hok) as H.
    unfold l2_step. fold cf hf. destruct (check_and_set cf hf b (unhex k) [] 0 (-1) ts_now (mkZ false 0 0)) as [b' r].
    destruct (spec_step (c_checkvhash cf) m (SDel (unhex k))) as [m' o'].
    destruct H as ([(-> & ->)|(-> & ->)] & HR'); exists b'; cbn [fst snd proj proj_out]; auto.
  - (* incr *)
    pose proof (bkt_incr_spec cf hf K hf_inj b m (unhex k) d ts_now HR Hok) as H.
    unfold l2_step. fold cf hf. destruct (bkt_incr cf hf b (unhex k) d ts_now) as [b' n].
    destruct (spec_step (c_checkvhash cf) m (SIncr (unhex k) d)) as [m' o'].
    destruct H as (-> & HR'). exists b'. cbn [fst snd proj proj_out]. auto.
  - (* get *)
    destruct (bkt_get_spec hf K hf_inj b m (unhex k) HR Hok) as [Hb Hg].
    pose proof (rel_ver_nonzero b m (unhex k)) as Hnz.
    unfold l2_step. fold cf hf. destruct (bkt_get hf b (unhex k)) as [b' g]. cbn [fst snd] in Hb, Hg. subst b'.
    exists b. cbn [spec_step]. destruct (s_get m (unhex k)) as [e|].
    + destruct Hg as (ts0 & p0 & ->). specialize (Hnz e HR Hok eq_refl). unfold live.
      destruct (0 <? e_ver e)%Z eqn:El.
      * replace (e_ver e <? 0)%Z with false by (symmetry; apply Z.ltb_ge; apply Z.ltb_lt in El; lia).
        cbn [fst snd proj]. auto.
      * replace (e_ver e <? 0)%Z with true by (symmetry; apply Z.ltb_lt; apply Z.ltb_ge in El; lia).
        cbn [fst snd proj proj_out]. auto.
    + rewrite Hg. cbn [fst snd proj proj_out]. auto.
  - (* meta *)
    destruct (bkt_get_spec hf K hf_inj b m (unhex k) HR Hok) as [Hb Hg].
    unfold l2_step. fold cf hf. destruct (bkt_get hf b (unhex k)) as [b' g]. cbn [fst snd] in Hb, Hg. subst b'.
    exists b. cbn [spec_step]. destruct (s_get m (unhex k)) as [e|].
    + destruct Hg as (ts0 & p0 & ->). unfold live. cbn [fst snd proj proj_out]. auto.
    + rewrite Hg. cbn [fst snd proj proj_out]. auto.
  - (* flush *)
    exists (flush_head b). cbn [l2_step fst snd proj proj_out spec_step]. split; [reflexivity|]. split; [reflexivity|].
    now apply flush_head_rel.
  - (* hint dump *)
    eexists. cbn [l2_step fst snd proj proj_out spec_step]. split; [reflexivity|]. split; [reflexivity|].
    apply (Rel_core hf K b _ m); [symmetry; apply trydump_all_core|exact HR].
  - (* directory snapshot *)
    exists b. cbn [l2_step fst snd proj proj_out spec_step]. auto.
Qed.

(* the projected replies of the model over a whole history *)
Fixpoint model_run (b : bucket) (ops : list l2op) : list pout :=
  match ops with
  | [] => []
  | o :: t => match l2_step lc b o with
              | (Some b', x) => proj x :: model_run b' t
              | (None, x) => [proj x]
              end
  end.

Fixpoint sops_of (ops : list l2op) : option (list sop) :=
  match ops with
  | [] => Some []
  | o :: t => match sop_of o, sops_of t with Some s, Some l => Some (s :: l) | _, _ => None end
  end.

(* every operation meets its precondition along the SPEC run (keys in K, client flags without the
   server bit, revisions >= 0, and the check_vhash/zero-value-hash delete trigger excluded) *)
Fixpoint ops_ok (m : smap) (sops : list sop) : Prop :=
  match sops with
  | [] => True
  | so :: t => op_ok m so /\ ops_ok (fst (spec_step (c_checkvhash cf) m so)) t
  end.

Theorem run_refines ops : forall b m sops,
  Rel hf K b m -> sops_of ops = Some sops -> ops_ok m sops ->
  model_run b ops = spec_run (c_checkvhash cf) m sops.
Proof.
  induction ops as [|o t IH]; intros b m sops HR Hs Hok.
  - cbn [sops_of] in Hs. injection Hs as <-. reflexivity.
  - cbn [sops_of] in Hs. destruct (sop_of o) as [so|] eqn:Eso; [|discriminate].
    destruct (sops_of t) as [l|] eqn:El; [|discriminate]. injection Hs as <-.
    cbn [ops_ok] in Hok. destruct Hok as [Ho Ht].
    destruct (step_refines b m o so HR Eso Ho) as (b' & Hb' & Hout & HR').
    cbn [model_run spec_run]. destruct (l2_step lc b o) as [ob x]. cbn [fst snd] in Hb', Hout. subst ob.
    destruct (spec_step (c_checkvhash cf) m so) as [m' y]. cbn [fst snd] in *. rewrite Hout.
    f_equal. now apply IH.
Qed.

Lemma rel_init : Rel hf K bucket0 [].
Proof.
  split.
  - split; [split|split; [reflexivity|]].
    + intros c. unfold chunk_at, bucket0. cbn [b_chunks]. rewrite nth_repeat. apply chunk0_ok.
    + intros c _. unfold chunk_at, bucket0. cbn [b_chunks]. apply nth_repeat.
    + intros h s Hts. unfold tree_get_slot, bucket0 in Hts. cbn [b_tree] in Hts. rewrite PM.gempty in Hts. discriminate.
  - intros k _. unfold abs, tree_get_slot, bucket0. cbn [b_tree]. now rewrite PM.gempty.
Qed.

End Run.
