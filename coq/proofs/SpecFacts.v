(* Facts about the reference map itself (it really is last-write-wins). *)
From Coq Require Import NArith ZArith List Bool Lia.
From GB Require Import Consts Words Hash Bucket RefMap.
Import ListNotations.
Open Scope N_scope.

Lemma spec_get_after_set : forall m k v flag,
  snd (spec_step false (fst (spec_step false m (SSet k v flag 0))) (SGet k)) = PHit v flag.
Proof.
  intros m k v flag. cbn [spec_step]. rewrite andb_false_r.
  unfold next_version. change (0 =? 0)%Z with true. cbv iota. cbn [fst snd spec_step s_get s_put].
  destruct (list_eq_dec N.eq_dec k k) as [_|Hn]; [|congruence].
  unfold live. cbn [e_ver e_val e_flag].
  destruct (s_get m k) as [e|]; [destruct (0 <=? e_ver e)%Z eqn:E|].
  - replace (0 <? e_ver e + 1)%Z with true; [reflexivity|]. symmetry. apply Z.ltb_lt. apply Z.leb_le in E. lia.
  - replace (0 <? - e_ver e + 1)%Z with true; [reflexivity|]. symmetry. apply Z.ltb_lt. apply Z.leb_gt in E. lia.
  - reflexivity.
Qed.

Lemma spec_miss_after_delete : forall chk m k,
  snd (spec_step chk (fst (spec_step chk m (SDel k))) (SGet k)) = PMiss.
Proof.
  intros chk m k. cbn [spec_step]. destruct (s_get m k) as [e|] eqn:Em.
  - destruct (live e) eqn:El; cbn [fst snd spec_step s_get s_put].
    + destruct (list_eq_dec N.eq_dec k k) as [_|Hn]; [|congruence]. unfold live. cbn [e_ver].
      replace (0 <? - Z.abs (e_ver e) - 1)%Z with false; [reflexivity|]. symmetry. apply Z.ltb_ge. lia.
    + rewrite Em, El. reflexivity.
  - cbn [fst snd spec_step]. rewrite Em. reflexivity.
Qed.
