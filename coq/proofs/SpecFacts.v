(* Facts about the reference map itself (it really is last-write-wins). *)
From Coq Require Import NArith ZArith List Bool Lia ZifyN ZifyNat ZifyBool.
From GB Require Import Consts Words Hash Bucket RefMap.
Import ListNotations.
Open Scope N_scope.

Lemma spec_get_after_set : forall m k v flag,
  snd (spec_step false (fst (spec_step false m (SSet k v flag 0))) (SGet k)) = PHit v flag.
Proof.
  intros m k v flag. cbn [spec_step]. rewrite andb_false_r.
  unfold next_version. change (0 =? 0)%Z with true. cbv iota. cbn [fst snd spec_step s_get s_put].
  destruct (list_eq_dec N.eq_dec k k) as [_|Hn]; [|congruence].
  unfold live. cbn [e_ver e_val e_flag].
  destruct (s_get m k) as [e|]; [destruct (0 <=? e_ver e)%Z eqn:E|].
  - replace (0 <? e_ver e + 1)%Z with true; [reflexivity|]. symmetry. apply Z.ltb_lt. apply Z.leb_le in E. lia.
  - replace (0 <? - e_ver e + 1)%Z with true; [reflexivity|]. symmetry. apply Z.ltb_lt. apply Z.leb_gt in E. lia.
  - reflexivity.
Qed.

Lemma spec_miss_after_delete : forall chk m k,
  snd (spec_step chk (fst (spec_step chk m (SDel k))) (SGet k)) = PMiss.
Proof.
  intros chk m k. cbn [spec_step]. destruct (s_get m k) as [e|] eqn:Em.
  - destruct (live e) eqn:El; cbn [fst snd spec_step s_get s_put].
    + destruct (list_eq_dec N.eq_dec k k) as [_|Hn]; [|congruence]. unfold live. cbn [e_ver].
      replace (0 <? - Z.abs (e_ver e) - 1)%Z with false; [reflexivity|]. symmetry. apply Z.ltb_ge. lia.
    + rewrite Em, El. reflexivity.
  - cbn [fst snd spec_step]. rewrite Em. reflexivity.
Qed.

(* ---- versions (C04): sets with automatic revision and deletes ---- *)
Definition ver_of (m : smap) (k : bytes) : Z := match s_get m k with Some e => e_ver e | None => 0%Z end.

Definition plain_write (so : sop) : bool :=
  match so with SSet _ _ _ rev => (rev =? 0)%Z | SDel _ | SGet _ | SMeta _ | SNop => true | SIncr _ _ => false end.

(* a write never touches another key's entry *)
Definition wkey (so : sop) : option bytes :=
  match so with SSet k _ _ _ | SDel k | SIncr k _ => Some k | _ => None end.

Lemma spec_other_key chk m so k : wkey so <> Some k ->
  s_get (fst (spec_step chk m so)) k = s_get m k.
Proof.
  intros H.
  destruct so as [k' v f rev|k'|k' d|k'|k'|]; cbn [spec_step wkey] in *.
  - destruct (s_get m k') as [e|]; cbn [andb].
    + destruct (_ && chk).
      * destruct (negb _); cbn [fst s_get s_put]; [|reflexivity]. destruct (list_eq_dec N.eq_dec k' k); [congruence|reflexivity].
      * destruct (next_version _ _); cbn [fst s_get s_put]; [|reflexivity]. destruct (list_eq_dec N.eq_dec k' k); [congruence|reflexivity].
    + destruct (next_version _ _); cbn [fst s_get s_put]; [|reflexivity]. destruct (list_eq_dec N.eq_dec k' k); [congruence|reflexivity].
  - destruct (s_get m k') as [e|]; [|reflexivity]. destruct (live e); cbn [fst s_get s_put]; [|reflexivity].
    destruct (list_eq_dec N.eq_dec k' k); [congruence|reflexivity].
  - destruct (s_get m k') as [e|].
    + destruct (live e).
      * destruct (22 <? _); [reflexivity|]. destruct (if e_flag e =? flag_incr then _ else _); cbn [fst s_get s_put]; [|reflexivity].
        destruct (list_eq_dec N.eq_dec k' k); [congruence|reflexivity].
      * cbn [fst s_get s_put]. destruct (list_eq_dec N.eq_dec k' k); [congruence|reflexivity].
    + cbn [fst s_get s_put]. destruct (list_eq_dec N.eq_dec k' k); [congruence|reflexivity].
  - destruct (s_get m k') as [e|]; [destruct (live e)|]; reflexivity.
  - destruct (s_get m k') as [e|]; reflexivity.
  - reflexivity.
Qed.

(* accepted writes get strictly larger absolute versions; everything else leaves the version alone *)
Lemma spec_version_step chk m so k : plain_write so = true ->
  let m' := fst (spec_step chk m so) in
  s_get m' k = s_get m k \/ (Z.abs (ver_of m k) < Z.abs (ver_of m' k))%Z.
Proof.
  intros Hp. cbv zeta. unfold ver_of.
  destruct so as [k' v f rev|k'|k' d|k'|k'|]; cbn [plain_write] in Hp; try discriminate; cbn [spec_step].
  - apply Z.eqb_eq in Hp. subst rev. change (negb (0 =? 0)%Z) with false. cbv iota.
    destruct (s_get m k') as [e|] eqn:Ek'; cbn [andb].
    + destruct (_ && chk); [left; destruct (s_get m k'); reflexivity|].
      unfold next_version. change (0 =? 0)%Z with true. cbv iota. cbn [fst s_get s_put].
      destruct (list_eq_dec N.eq_dec k' k) as [<-|Hne]; [|now left]. right. rewrite Ek'. cbn [e_ver].
      destruct (Z.leb_spec 0 (e_ver e)); lia.
    + unfold next_version. change (0 =? 0)%Z with true. cbv iota. cbn [fst s_get s_put].
      destruct (list_eq_dec N.eq_dec k' k) as [<-|Hne]; [|now left]. right. rewrite Ek'. reflexivity.
  - destruct (s_get m k') as [e|] eqn:Ek'; [|now left]. destruct (live e) eqn:El; cbn [fst s_get s_put]; [|now left].
    destruct (list_eq_dec N.eq_dec k' k) as [<-|Hne]; [|now left]. right. rewrite Ek'. cbn [e_ver]. lia.
  - left. destruct (s_get m k') as [e|]; [destruct (live e)|]; reflexivity.
  - left. destruct (s_get m k') as [e|]; reflexivity.
  - now left.
Qed.

(* hence along any run of such operations the absolute version of a key never decreases:
   the final entry of every key is the write with the highest version *)
Lemma spec_version_mono chk ops : forall m k, forallb plain_write ops = true ->
  (Z.abs (ver_of m k) <= Z.abs (ver_of (fold_left (fun mm o => fst (spec_step chk mm o)) ops m) k))%Z.
Proof.
  induction ops as [|o t IH]; intros m k Hp; cbn [fold_left]; [lia|].
  cbn [forallb] in Hp. apply andb_prop in Hp as [Ho Ht].
  specialize (IH (fst (spec_step chk m o)) k Ht).
  destruct (spec_version_step chk m o k Ho) as [E|L].
  - unfold ver_of in *. rewrite E in IH. exact IH.
  - lia.
Qed.
