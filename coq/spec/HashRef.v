(* Spec: the historical beansdb definitions, written independently of the
   model and of gen/Consts.v (all constants are literals of the published
   algorithms). *)
From Coq Require Import NArith ZArith List Bool.
Import ListNotations.

(* FNV-1a over C `signed char` (beansdb's fnv1a.c):
     h ^= (int32_t)(signed char)b;  h *= 0x01000193;   on uint32_t          *)
Definition schar (b : N) : Z := if (b <? 128)%N then Z.of_N b else (Z.of_N b - 256)%Z.
Definition fnv1a_ref_step (h : Z) (b : N) : Z :=
  ((Z.lxor h (schar b) mod 4294967296) * 16777619 mod 4294967296)%Z.
Definition fnv1a_ref (bs : list N) : Z := fold_left fnv1a_ref_step bs 2166136261%Z.

(* the textbook FNV-1a (unsigned bytes), for the ASCII corollary *)
Definition fnv1a_std_step (h : Z) (b : N) : Z :=
  ((Z.lxor h (Z.of_N b)) * 16777619 mod 4294967296)%Z.
Definition fnv1a_std (bs : list N) : Z := fold_left fnv1a_std_step bs 2166136261%Z.

Open Scope N_scope.

(* MurmurHash3_x86_32, seed 0, one-shot, by structural recursion on 4-byte blocks *)
Definition M32 : N := 4294967296.
Definition rotl (x r : N) : N := ((x * 2 ^ r) mod M32) + x / 2 ^ (32 - r).
Definition mmr_k (k : N) : N := (rotl ((k * 0xcc9e2d51) mod M32) 15 * 0x1b873593) mod M32.
Definition mmr_mix (h k : N) : N :=
  (rotl (N.lxor h (mmr_k k)) 13 * 5 + 0xe6546b64) mod M32.
Definition mmr_fmix (h : N) : N :=
  let h := N.lxor h (h / 65536) in
  let h := (h * 0x85ebca6b) mod M32 in
  let h := N.lxor h (h / 8192) in
  let h := (h * 0xc2b2ae35) mod M32 in
  N.lxor h (h / 65536).
Fixpoint mmr_body (h : N) (bs : list N) : N * list N :=
  match bs with
  | b0 :: b1 :: b2 :: b3 :: rest =>
      mmr_body (mmr_mix h (b0 + 256 * b1 + 65536 * b2 + 16777216 * b3)) rest
  | _ => (h, bs)
  end.
Definition mmr_tailk (t : list N) : N :=
  match t with
  | [t0] => t0
  | [t0; t1] => t0 + 256 * t1
  | [t0; t1; t2] => t0 + 256 * t1 + 65536 * t2
  | _ => 0
  end.
Definition murmur32_ref (bs : list N) : N :=
  let '(h, t) := mmr_body 0 bs in
  let h := match t with [] => h | _ => N.lxor h (mmr_k (mmr_tailk t)) end in
  mmr_fmix (N.lxor h (N.of_nat (length bs) mod M32)).

Definition keyhash_ref (bs : list N) : N :=
  Z.to_N (fnv1a_ref bs) * M32 + murmur32_ref bs.

(* beansdb gen_hash truncated to 16 bits *)
Definition vhash_ref (v : list N) : N :=
  let l := N.of_nat (length v) in
  if l <=? 1024 then
    ((l * 97 + Z.to_N (fnv1a_ref v)) mod M32) mod 65536
  else
    let h := (l * 97 + Z.to_N (fnv1a_ref (firstn 512 v))) mod M32 in
    let h := (h * 97) mod M32 in
    ((h + Z.to_N (fnv1a_ref (skipn (length v - 512) v))) mod M32) mod 65536.

(* CRC-32 (IEEE 802.3, reflected, polynomial 0xEDB88320), bit at a time *)
Definition crc_bit (c : N) : N :=
  if N.testbit c 0 then N.lxor (N.shiftr c 1) 0xEDB88320 else N.shiftr c 1.
Definition crc_byte_ref (c b : N) : N :=
  crc_bit (crc_bit (crc_bit (crc_bit (crc_bit (crc_bit (crc_bit (crc_bit (N.lxor c b)))))))).
Definition crc32_ref (bs : list N) : N :=
  N.lxor (fold_left crc_byte_ref bs 0xFFFFFFFF) 0xFFFFFFFF.
