(* Spec: the plain reference map a single client talks to (DESIGN A.4).
   A key maps to (value, client flags, version); version < 0 = deleted (tombstone remembered). *)
From Coq Require Import NArith ZArith List Bool.
From GB Require Import Consts Words Hash Bucket.
Import ListNotations.
Open Scope N_scope.

Record sentry := mkE { e_val : bytes; e_flag : N; e_ver : Z }.
Definition smap := list (bytes * sentry).

Fixpoint s_get (m : smap) (k : bytes) : option sentry :=
  match m with
  | [] => None
  | (k', e) :: t => if list_eq_dec N.eq_dec k' k then Some e else s_get t k
  end.
Definition s_put (m : smap) (k : bytes) (e : sentry) : smap := (k, e) :: m.

(* projected observables: what a client can rely on (no positions, no timestamps) *)
Inductive pout :=
| PStored | PErr | PDeleted | PNotFound
| PNum (z : Z)
| PMiss
| PHit (v : bytes) (flag : N)
| PMeta (ver : Z) (vh flag len : N)
| POk.

Inductive sop :=
| SSet (k v : bytes) (flag : N) (rev : Z)
| SDel (k : bytes)
| SIncr (k : bytes) (d : Z)
| SGet (k : bytes)
| SMeta (k : bytes)
| SNop.

Definition live (e : sentry) : bool := (0 <? e_ver e)%Z.

Definition spec_step (checkvhash : bool) (m : smap) (o : sop) : smap * pout :=
  match o with
  | SSet k v flag rev =>
      let old := s_get m k in
      let oldv := match old with Some e => e_ver e | None => 0%Z end in
      let same := match old with Some e => live e && (vhash v =? vhash (e_val e)) | None => false end in
      if same && checkvhash then
        (* "not really set if the value hash is the same": only an explicit revision is recorded *)
        match old with
        | Some e => if negb (rev =? 0)%Z then (s_put m k (mkE (e_val e) (e_flag e) rev), PStored) else (m, PStored)
        | None => (m, PStored)
        end
      else
        match next_version oldv rev with
        | None => (m, PStored)                               (* explicit revision not larger: acknowledged, no change *)
        | Some ver => (s_put m k (mkE v flag ver), PStored)
        end
  | SDel k =>
      match s_get m k with
      | Some e => if live e then (s_put m k (mkE [] 0 (- Z.abs (e_ver e) - 1)%Z), PDeleted) else (m, PNotFound)
      | None => (m, PNotFound)
      end
  | SIncr k d =>
      match s_get m k with
      | Some e =>
          if live e then
            if 22 <? lenN (e_val e) then (m, PNum 0)
            else match (if e_flag e =? flag_incr then atoi (e_val e) else None) with
                 | None => (m, PNum 0)
                 | Some x => let nv := wrap64 (d + x)%Z in
                             (s_put m k (mkE (itoa nv) flag_incr (e_ver e + 1)%Z), PNum nv)
                 end
          else (s_put m k (mkE (itoa d) flag_incr 1%Z), PNum d)
      | None => (s_put m k (mkE (itoa d) flag_incr 1%Z), PNum d)
      end
  | SGet k =>
      match s_get m k with
      | Some e => if live e then (m, PHit (e_val e) (e_flag e)) else (m, PMiss)
      | None => (m, PMiss)
      end
  | SMeta k =>
      match s_get m k with
      | Some e => (m, PMeta (e_ver e) (if live e then vhash (e_val e) else 0) (e_flag e) (lenN (e_val e)))
      | None => (m, PMiss)
      end
  | SNop => (m, POk)
  end.

Fixpoint spec_run (checkvhash : bool) (m : smap) (ops : list sop) : list pout :=
  match ops with
  | [] => []
  | o :: t => let '(m', x) := spec_step checkvhash m o in x :: spec_run checkvhash m' t
  end.

(* with check_vhash off the spec is the plain last-write-wins map on bytes *)
Definition plain_set (m : smap) (k v : bytes) (flag : N) : smap * pout :=
  let oldv := match s_get m k with Some e => e_ver e | None => 0%Z end in
  (s_put m k (mkE v flag (if (0 <=? oldv)%Z then oldv + 1 else - oldv + 1)%Z), PStored).
