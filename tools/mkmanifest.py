#!/usr/bin/env python3
"""Writes MANIFEST.json from the table below (kept in one place so it stays valid)."""
import json, os, subprocess
V = os.path.dirname(os.path.dirname(os.path.abspath(__file__)))
CLAIMED = {
 "C16": dict(
   text="Theorems in coq/props/C16.v, for ALL byte strings: the model's signed-byte FNV-1a (both copies), murmur3-32, 64-bit key hash "
        "(halves recoverable), 16-bit value hash and table-driven CRC-32 equal independently written reference definitions (C signed-char "
        "FNV in Z two's complement, one-shot MurmurHash3_x86_32, bitwise reflected CRC-32 0xEDB88320; table proved entry by entry via a "
        "256-case vm_compute sweep lifted with forallb_forall + GF(2) linearity). The model is tied to /repo by the constant translator "
        "(table, primes, sign-extension cast, switch sizes) and by a seeded correspondence run of the Go functions against model and reference.",
   note="Trusted: Coq kernel + vm_compute; translator regexes; the Go harness; murmur3 library modelled from source. "
        "All theorems closed under the global context (no axioms).",
   technique="Rocq proof: model = reference for all inputs; model tied to code by constant translator + differential correspondence",
   design="6/C16"),
}
CLAIMED["C09"] = dict(
   text="Theorems in coq/props/C09.v over a byte-level model of the record codec (encode, readRecordAt, DataStreamReader.Next/nextValid): "
        "for ALL valid records and ALL record lists: length is exactly ceil((24+k+v)/256) blocks, positional read of an encoded record returns it "
        "whatever follows, a sequential scan of any concatenation yields every record with its offset and no error, and nothing is returned by a "
        "positional read without size limits and CRC over exactly the returned bytes having been checked. C09_scan_resyncs (proofs/RecordResync.v): "
        "for ALL files rs1 ++ damaged region of n whole blocks ++ rs2 in which no damaged block parses as a record and the first damaged header "
        "fails in a contained way (bad sizes, or checksum mismatch with sizes inside the file), the scan yields all of rs1, skips exactly the "
        "region and yields EVERY record of rs2 at its true offset, without error. Outside that condition the resynchronisation clause is "
        "REFUTED for the code as it stands (C09_scan_huge_vsz_refuted, known finding F2: a size field claiming an extent past EOF) with a replayed witness. Byte-level correspondence on "
        "seeded clean and damaged files (bit/byte flips, size-field damage, zeroed blocks, truncations, embedded record images): file bytes, "
        "offsets, per-block positional outcomes, scan results incl. sizeBroken and end status; a separate spec oracle judges the implementation's outputs.",
   note="PARTIAL: that a damaged block does NOT parse (CRC-32 detects the alteration) is a hypothesis of the resync theorem, not a theorem -- "
        "single-byte / burst detection by CRC-32 is not proved, CRC collisions are a limit of the format; damage that is not block-aligned in "
        "length (truncation inside a block) is covered by correspondence + oracle only. Trusted: Coq kernel, translator, Go harness, python oracle. No axioms.",
   technique="Rocq proof of codec round-trip/layout/soundness over a byte-level model + refutation witness; byte-level differential correspondence incl. fault stream",
   design="6/C09")
CLAIMED["C14"] = dict(
   text="Theorem C14_hint_roundtrip (for ALL item lists, index intervals, data sizes): reading a written hint file yields exactly the items and "
        "the recorded data size, over a byte-level model of hintFileWriter/hintFileReader/loadHintIndex/hintFileIndex.get (binary search as "
        "sort.Search, sparse-index seek)/HintBuffer/merge. C14_lookup_total (proofs/HintLookup.v): for ALL hash-sorted item lists, intervals and "
        "(hash, key) queries the byte-level lookup -- index loaded back from the file (C14_index_roundtrip), binary search, seek to the preceding "
        "index entry, scan -- returns the item iff it is present and NOT-FOUND otherwise, never an error; C14_dumped_lookup_total: the same on "
        "every file HintBuffer.Dump writes. The proof needs the translated flag hint_get_offset_synced (the F1 repair). "
        "C14_merge_keeps_greatest_position / C14_merge_reports_collisions (proofs/HintMerge.v): for ANY number of source files in merge order the "
        "k-way merge (min-heads, pop, mergeWriter grouping) yields exactly one entry per (hash, key) present in a source, the one with the "
        "GREATEST (chunk, offset) position, in merge order, and the collision table afterwards has an entry for both keys of every pair of "
        "source items with equal hash and different keys (earlier entries are never lost). Finding F1 (lookup of an absent key above all hashes errors) is a refutation theorem "
        "over the model parameterised by a flag translated from the source, and was repaired by a fix: commit; the flag is proved on for the "
        "current tree. Correspondence: files built through HintBuffer.Set/Dump compared byte for byte, read-back, index length, ~13k lookups "
        "per quick run (present / absent below, between, same-hash-other-key, above), k-way merge output and collision table; a python spec "
        "oracle (round-trip, found-iff-present-never-error, greatest-position-wins, same-hash groups reported) judges the implementation.",
   note="All three clauses of the property are theorems over the model (round trip, total lookup, merge). Not proved: that the collision table "
        "holds ONLY such groups (soundness of reports) and the byte-level writer of the merged file (it is the round-trip writer). Trusted: Coq kernel, translator, Go harness, python oracle. No axioms.",
   technique="Rocq proofs of hint-file round-trip and total lookup over a byte-level model, of the k-way merge (greatest position per key, collision reporting) + refutation/repair of the lookup defect; differential correspondence for lookup and merge",
   design="6/C14")
CLAIMED["C01"] = dict(
   text="Theorem C01_refines (coq/props/C01.v): for ALL configurations, ALL key sets on which the key hash does not collide and ALL histories "
        "(any length) of set / delete / incr / get / meta-get / forced flush / hint dump -- with data-file rotation wherever the limit puts it -- "
        "the projected replies of the bucket model (l2_step, the same executable function the correspondence check replays) equal those of a "
        "20-line reference map (spec/RefMap.v: auto-increment, negated increment on delete, explicit revision iff larger, check_vhash no-op, incr "
        "rules); proved by a simulation invariant (layout of chunks, tree slot points at the newest record of its key, value hash of the slot = hash "
        "of the value). Corollaries on the spec: get-after-set, miss-after-delete. The model is tied to /repo by seeded differential histories through "
        "the real StorageClient incl. restarts, with replies AND directory contents compared (120 histories x ~60 ops per quick run), and a separate "
        "python reference-map oracle judges the implementation. Two genuine defects found this way were repaired by fix: commits (F13 empty-value "
        "compress panic, F16 check_vhash delete of a zero-hash value).",
   note="PARTIAL w.r.t. the property text: restarts and GC passes inside a history are covered by C03_histories_with_gc_and_restarts (all histories mixing client operations, restarts and passes; check_vhash off), not by this theorem; multi-get "
        "and the text protocol are covered in C11. Assumes no key-hash collision inside the key set (C13) and versions inside int32. Compressor and "
        "sniffing are oracles supplied by the harness. Trusted: Coq kernel, translator, harness (SecsBeforeDump=-1, async flush awaited). No axioms.",
   technique="Rocq refinement proof (simulation invariant over all histories) of an executable bucket model to a reference map; model tied to code by differential trace replay",
   design="6/C01 + Appendix A")
CLAIMED["C15"] = dict(
   text="Theorems (coq/props/C15.v): for every 64-bit hash the bucket id is exactly its leading 0/1/2 hex digits (h / 2^60, h / 2^56), in "
        "particular for the key hash of every key; bucket directory names are injective; the configured bucket counts give depths 0/1/2. "
        "Correspondence on real stores with 1/16/256 buckets and served subsets none/one/some/all: every key is read back iff its bucket is "
        "served, its record lies in exactly the directory of that bucket (independent record scanner over every file), unserved buckets get no "
        "file, and '@' listings above / at / below the bucket depth equal the model's aggregate of the per-bucket merkle roots (*97 rule).",
   note="'stores nothing / writes only in its own directory' and 'upper listing = aggregate' are established by correspondence + oracle over the "
        "real HStore, the digit arithmetic by theorem. Trusted: Coq kernel, translator, harness, python oracle. No axioms.",
   technique="Rocq proof of the digit/bucket arithmetic + differential correspondence on whole stores",
   design="6/C15")
CLAIMED["C11"] = dict(
   text="Theorems (coq/props/C11.v) over a byte-level model of Request.Read / Process / Response.Write / ServeOnce / Serve that is parametric "
        "in the storage client: for EVERY byte stream and EVERY storage behaviour a ServeOnce that keeps the connection open consumes >= 1 "
        "byte and the serve loop terminates (extra fuel changes nothing); a set whose header announces n bytes is parsed with exactly those "
        "n bytes as value whatever they contain (CR/LF/NUL/keywords) and exactly the rest left over. The one-reply clause is REFUTED for the "
        "code as it stands (C11_dir17_refuted, known finding F5). Correspondence: 150 stores x 1..3 connections x 4..17 commands over all "
        "verbs + 40% mutated streams through the real ServerConn/StorageClient/HStore, reply bytes compared with the model after "
        "canonicalisation; grammatical streams are fed command by command so each reply is attributed, and a python grammar oracle judges "
        "'exactly one reply of the right kind per command'.",
   note="PARTIAL: request/response print-parse round trips and 'malformed input is contained' are covered by correspondence, not yet by "
        "theorems. TCP, timeouts (RECV/PROCESS_TIMEOUT) and goroutine scheduling are not modelled; one modelled artefact of the timeout test: the "
        "reply to a bare-LF first line is swallowed. Trusted: Coq kernel, harness, python oracle. No axioms.",
   technique="Rocq proof of progress/termination and binary safety over a protocol model parametric in storage; refutation witness; differential correspondence",
   design="6/C11")
CLAIMED["C12"] = dict(
   text="Theorems (coq/props/C12.v): for EVERY byte stream and EVERY storage behaviour (panics included) all request tokens taken are returned "
        "(C12_tokens_returned); every command on which the storage client honours the buffer hand-over contract leaves SetData and GetData exactly "
        "unchanged (C12_balance_partial, with the executable predicate `clean`); the unrestricted balance is REFUTED for the code as it stands "
        "(C12_leaks_refuted, known findings F6-F8); a further leak found by the machinery -- a repeated key in a multi-get (F23) -- is refuted for the "
        "code before the repair (C12_repeated_key_refuted) and repaired by a fix: commit, the model being parameterised by the translated flag "
        "getmulti_skips_duplicates. The accounting model (ghost counters threaded through the protocol model) predicts the exact "
        "residue of every stream, leaks included, and is compared with cmem.DBRL and the token channel after flush + idle on every case.",
   note="PARTIAL: FlushData/AllocRL are compared (expected zero unless a recorded leak carries a C allocation) but not modelled; concurrent "
        "connections and counter races are not modelled. Trusted: Coq kernel, harness, python oracle. No axioms.",
   technique="Rocq proof of token conservation (all streams) and per-command buffer balance under an explicit contract; refutation witness; differential accounting correspondence",
   design="6/C12")
CLAIMED["C10"] = dict(
   text="Theorems (coq/props/C10.v): (1) whatever the compressor reports, every reply of every history is identical (C10_decision_invisible, a "
        "corollary of the C01 refinement: two traces differing only in compressor answers give the same projected replies); (2) the server flag "
        "bit never escapes (client_flag (stored_flag f c) = f); (3) the decision rule characterised (never for tombstones / client-compressed / "
        "one-block records; only when 10*c <= 7*t and the content type is allowed); (4) for EVERY byte string the safe C entry point as built in this "
        "tree -- QuickLZ level-3 decoder modelled with explicit out-of-bounds outcomes, QLZ_MEMORY_SAFE and the stored-block check translated from the "
        "sources -- returns a buffer or an error and never touches memory outside its buffers (C10_safe_entry_total, invariant proof over the "
        "decoder loop); (5) the code before the two repairs is refuted with witnesses (F9, F9b, both fixed by fix: commits). Correspondence: "
        "600 byte strings (C- and Go-compressed, mutated, stored headers, random) through CDecompressSafe vs the model byte for byte, Go "
        "DecompressSafe observed, plus store histories with values around all decision thresholds (directory sizes = decision).",
   note="PARTIAL: 'the two implementations decompress each other's output' is observed (oracle), not proved -- the compressors are not modelled; one "
        "open finding (F19: Go-compressed inputs of 1..3 bytes are rejected by the memory-safe C decoder). The float32 ratio test is modelled by its "
        "exact integer equivalent on the reachable domain (argued in DESIGN). Trusted: Coq kernel, translator, harness, C compiler. No axioms.",
   technique="Rocq proof: decision invisibility via refinement, memory-safety invariant of a modelled decoder for all inputs, refutation witnesses; differential correspondence",
   design="6/C10")
CLAIMED["C17"] = dict(
   text="Theorems (coq/props/C17.v): (1) C17_range_sound -- for ALL (start, end, days) incl. negatives / out-of-range and ALL bucket states an "
        "accepted range starts and ends at non-empty files, lies strictly below the head file, and the first data-holding file above its end has a "
        "first record older than the age limit (no_gc_days when days<0); (2) pretend mode is the identity on the model state; (3) "
        "C17_touches_only_partial -- for ALL states, ranges and merge flags a pass leaves the head index and every data chunk outside "
        "[dst0, max(end, dst_final)], dst0 <= begin, bit-for-bit unchanged; (4) C17_one_pass_per_bucket -- over ALL schedules of the request "
        "protocol (check / reserve / start / finish as separate atomic steps, any number of requests and buckets) at most one pass runs per bucket, "
        "with the reservation flag translated from store/hstore.go proved on, and the protocol without it refuted by a 6-step schedule (finding F12, "
        "repaired by a fix: commit). Correspondence: GC histories through the real HStore.GC (range resolution incl. pretend, file inventory before/"
        "after compared with the model's directory), python oracle for range soundness / files touched / pretend, and the forced schedule 'two "
        "requests parked between check and registration' with a concurrent-pass detector.",
   note="PARTIAL: (3) holds for ALL states and merge flags but allows up to max(end, dst_final); C17_touches_only_range (3b) closes this for every "
        "state described by the C01 relation + GC precondition, with or without hint merge: nothing outside [dst0, end] is touched and the files "
        "strictly between dst0 and begin held no record before the pass (so the only earlier file with data that is written to is dst0, "
        "appended to only -- C18_pass_layout). The GC precondition includes 'no record extends past DataFileMax'; it is necessary: "
        "C17_oversize_record_refuted evaluates a reachable state (BodyMax above DataFileMax, one 1280-byte record in a 1024-byte file) on which a pass "
        "over [1,2] appends to the head file 3 and creates files 4 and 5 -- the implementation does the same (open known finding F24, "
        "corpus/C17/F24.json, oracle kind gc-oversize-spill). The request protocol model is abstract (tied to the code by the translated flag and the forced "
        "schedule, not by trace replay). Trusted: Coq kernel, translator, harness incl. verifPoint parking, python oracle. No axioms.",
   technique="Rocq proof of range soundness, touched-file set and mutual exclusion over all schedules of a protocol model; refutation witness; differential correspondence + forced schedules",
   design="6/C17")
CLAIMED["C04"] = dict(
   text="Theorem C04_linearizable (coq/props/C04.v): in the interleaving model (model/Sched.v: writers, flusher and hint dumper are atomic steps "
        "-- they run under the bucket write lock / chunk lock; a get or meta-get is TWO steps, position lookup then positional read, with arbitrary "
        "steps of other clients, flushes, hint dumps and file rotations in between), for ALL configurations, collision-free key sets, numbers of "
        "clients and interleavings of any length, the replies equal those of the concurrent reference specification in which writes take effect "
        "atomically in schedule order and each read answers the reference map at its lookup step, i.e. at a point inside its invocation/response "
        "interval (linearizability with explicit linearization points; proof: simulation + 'the data log is append-only under every client "
        "operation' so a looked-up position keeps its record). On the reference map: accepted auto-revision sets and deletes give a key strictly "
        "larger absolute versions, touch no other key, and after any history each key holds the highest version (C04_versions_increase, "
        "C04_other_keys_untouched, C04_final_is_highest). Tie to the code: readers of the real store are parked between lookup and positional "
        "read (verifPoint get.looked) while other clients write / rotate / flush / dump; the recorded event traces are replayed on the same "
        "c_step function inside Coq with every reply compared (60 traces per quick run), plus a seeded stress suite (2..8 client goroutines, "
        "flusher+dumper loop, yield injection at every verifPoint) judged by a sound per-key register oracle (stale / future / unwritten reads, "
        "version uniqueness and order, final value).",
   note="PARTIAL: the lock-granular atomicity of writers / flusher is an assumption of the model validated by schedules, not proved of the Go "
        "code; data races below lock granularity (buffer free vs. copy) are outside any executable model -- the stress suite can only sample them. "
        "Concurrent incr excluded by the property. Trusted: Coq kernel, harness incl. verifPoint parking, python oracle. No axioms.",
   technique="Rocq proof of linearizability of an interleaving model (simulation with explicit linearization points, append-only log lemma); forced-schedule differential replay + stress with register oracle",
   design="6/C04")
CLAIMED["C05"] = dict(
   text="Theorems (coq/props/C05.v) over the GC record step split where a client can overtake it (phase 1 newest-check + copy, phase 2 tree repoint + "
        "hint / collision-table update on the bucket as it is then; proved equal to the sequential GC step, and the pass with an insertion point "
        "proved equal to the sequential pass when nothing is inserted): for ALL bucket states, relocations and client writes of a newer version that "
        "land between copy and index update, get's lookup of the key (collision-table entry first, tree slot otherwise) is after GC's update exactly "
        "what the client's write installed, the client's record is still there, and GC's update touches no data file "
        "(C05_write_during_gc_survives, C05_finish_keeps_lookup, C05_write_enters_table); the two conditions are translated from store/gc.go and "
        "store/collision.go and proved on; the code before the repairs is refuted with witnesses (F20 unconditional repoint, F22 forced "
        "collision-table update -- both genuine defects found by the forced schedules and repaired by fix: commits). Tie to the code: seeded "
        "histories followed by a real GC pass parked right after the copy of its n-th relocated record (verifPoint gc.appended) while a client "
        "sets / deletes a key, then gets of all keys, restart, gets -- replayed with every reply and the GC statistics on the split step inside "
        "Coq (60 per quick run, colliding keys included) and judged by a python last-acknowledged-write oracle; plus 7 scripted forced schedules "
        "(write between re-read and repoint, after the copy, colliding keys).",
   note="PARTIAL: one insertion point per pass (after a copy); insertion between GC's newest-check and its copy, cancel at file boundaries and "
        "reads concurrent with the pass are exercised by the C04 stress suite only; the lock-granular atomicity of the client write is an "
        "assumption validated by the schedules. Trusted: Coq kernel, translator, harness incl. verifPoint parking, python oracle. No axioms.",
   technique="Rocq proof that GC's index update preserves a newer client write (split-step model proved equal to the sequential step); refutation witnesses; forced-schedule differential replay",
   design="6/C05")
CLAIMED["C13"] = dict(
   text="Theorem C13_never_alias (coq/props/C13.v): for ALL configurations, ALL assignments of key hashes (any groups of keys forced onto one hash) "
        "and ALL histories of client operations of any length (set / delete / incr / get / meta-get / flush / hint dump), a get that hits returns "
        "bytes that an earlier set of THAT key wrote (or a counter value if the key was an incr target) -- never a value written under another key; "
        "proved with an invariant that also covers the unchecked second read of bucket.get (hint-buffer accuracy: every buffered hint item points "
        "at a record of its own key; log provenance: the only record a write adds to the data log is its own). The INDEPENDENCE clause (each key "
        "keeps its own latest value through writes of the others, restart and GC) is REFUTED for the code as it stands by three witness histories "
        "evaluated on the model and replayed on the implementation: F14 delete of a never-written colliding key answers DELETED and creates an "
        "entry; F3 set a, set b, delete b, restart with rebuilt tree => a misses; F15 an overwritten colliding key reads its older value after the "
        "next restart. Correspondence: 120 collide-mode histories per quick run (groups of 2..4 keys forced onto one hash through the test-only "
        "override, restarts with/without tree dump, GC merge on/off) with replies and directory contents compared with the model, which reproduces "
        "the code's defects exactly -- so a NEW divergence shows up as a model mismatch even when its symptom resembles a recorded finding; a "
        "python reference-map oracle judges the implementation; one crash (F17 nil dereference in getCollisionGC) was repaired by a fix: commit.",
   note="PARTIAL: never-alias is proved for histories of client operations; across restart and GC it is established by correspondence + oracle only "
        "(no violation kind 'other key's value' has been observed); independence is refuted (3 open findings, recorded by their witness scripts in "
        "corpus/C13). Version arithmetic of colliding keys is outside the property. Trusted: Coq kernel, translator, harness incl. the hash "
        "override, python oracle. No axioms.",
   technique="Rocq invariant proof (hint accuracy + log provenance) of never-alias over all client histories with arbitrary collisions; refutation witnesses replayed on the code; differential correspondence",
   design="6/C13")
CLAIMED["C02"] = dict(
   text="Theorems (coq/props/C02.v): C02_restart -- from ANY state satisfying the refinement invariant, for EVERY subset of index files "
        "removed between shutdown and start-up (tree dump, any set of per-chunk per-split hint files, merged hint), bucket.close followed by "
        "bucket.open is not refused, re-establishes the invariant, and the reference map after it is a VIEW of the one before: every live key keeps "
        "value, flags and version, a deleted key stays deleted (tombstone remembered or forgotten), an absent key stays absent. C02_history / C02_history_with_gc -- for "
        "ALL configurations with check_vhash off, ALL collision-free key sets and ALL histories of any length mixing set / delete / incr / get / "
        "meta-get / flush / hint dump with restarts at ANY positions (each with its own arbitrary subset of removed index files), every reply "
        "equals the reference map's reply. Proof (about 2000 lines): update-log theory (the tree = last update per hash of the record log), an "
        "invariant tying every prefix of a chunk's hint splits to the records below the split's recorded data size (so any surviving prefix of "
        "hint files plus a rescan of the data tail reproduces the log), sortedness/sealing of hint buffers, tree dump = tree at shutdown, and a "
        "fold over bucket.open's per-chunk steps. The model functions are the ones the correspondence check replays: 120 histories per quick run "
        "with restarts at seeded positions and random subsets of *.idx.hash / *.idx.s / *.idx.m deleted, replies and directory contents compared, "
        "plus forced schedules of shutdown racing the post-rotation flush (genuine defect F21 found there and repaired by a fix: commit) and a "
        "python reference-map oracle with admissible-version sets.",
   note="PARTIAL: check_vhash=on histories (tree-only version updates, which the property text excludes from version comparison), restarts after "
        "GC (C03) and colliding keys (C13, refuted there) are covered by correspondence only; the model keeps the post-rotation flush "
        "synchronous (its race with shutdown is exercised by the forced schedule). Trusted: Coq kernel, translator, harness, python oracle. No axioms.",
   technique="Rocq proof that close+open with any subset of index files preserves the refinement invariant and all live entries, lifted to all histories with restarts; differential correspondence with file deletion",
   design="6/C02")
CLAIMED["C08"] = dict(
   text="Theorems (coq/props/C08.v) over the model of HTree.set / remove / updateNodes / listDir: C08_leaf_summaries -- for ALL tree shapes "
        "(height 1..8) and ALL sequences of set / remove (the very fold the correspondence check runs) over key hashes that do not alias inside "
        "the tree, every leaf node's count equals the number of live items of its leaf (mod 2^32) and its hash equals the sum over live items of "
        "vhash * uint16(keyhash >> 32) (mod 2^16): the incrementally maintained summaries (add / subtract with uint16 / uint32 wrap-around, "
        "invalidation of the path) are exact functions of the leaf's CURRENT items; C08_leaf_history_independent -- two trees holding the same "
        "items per leaf in any order have identical leaf counts and hashes, whatever permutations, overwrites, deletes and re-sets produced them. "
        "INNER NODES (proofs/HTreeInner.v): C08_history_invariants -- for ALL histories of set / remove / LISTINGS in any order (listDir runs "
        "updateNodes, which recomputes and marks nodes) every inner node marked 'updated' holds exactly the aggregate sp of the leaf summaries "
        "beneath it (count sum mod 2^32, the *97 fold above the list threshold) and a node marked updated has only updated children; "
        "C08_root_is_aggregate / C08_node_listing_is_aggregate -- the root summary and the 16 (hash, count) pairs of a node-level listing are "
        "those aggregates, never a stale cached value; C08_listings_history_independent -- two trees with the same items per leaf report "
        "identical node-level listings at every prefix and identical roots, whatever histories (incl. listings in between) produced them. "
        "Correspondence: pairs of seeded histories with equal final content (permutations, redundant overwrites, delete-then-reset) on trees of "
        "depth 0..2 x height 2..6 incl. leaf populations across the 256-item listing threshold and the 100-item C search threshold: every '@' "
        "listing at every prefix, root (hash, count), item lookups and the listing after dump+load are compared with the model, and a python "
        "oracle recomputes every listing from the final live content alone (node level exactly, item level as sets).",
   note="PARTIAL: item-level listings (exactly the live keys with full hash), the "
        "reconstruction of the full key hash from path + stored low bytes, dump/load and the top-level aggregate over buckets (C15) are established "
        "by correspondence + oracle, not by theorem. The C realloc/memcmp leaf arrays are modelled as lists. Trusted: Coq kernel, harness, oracle. No axioms.",
   technique="Rocq invariant proofs (exact modular bookkeeping of leaf summaries; lazily cached inner aggregates valid under all interleavings of updates and listings; permutation invariance); differential correspondence on history pairs with equal content",
   design="6/C08")
CLAIMED["C03"] = dict(
   text="Theorem C03_gc_preserves_reads (coq/props/C03.v): for ALL ranges begin <= end below the head file and ALL bucket states satisfying the "
        "C01 refinement relation and the GC precondition (flushed, offset-sorted chunks; every record of a key in the key set and within "
        "DataFileMax; hint items well-formed), a GC pass without hint merge leaves the bucket related to the SAME reference map: every key reads "
        "exactly what it read before (value, flags, version), deleted keys stay deleted, absent keys stay absent. The pass is the model function the "
        "correspondence replays; the proof (about 900 lines, proofs/GcView.v) is a loop invariant over the per-record steps -- newest-test incl. "
        "the collision probe, copy, destination switch with truncation of the old destination, in-place rewriting of the first file of the range "
        "with its stale tail (unprocessed records never overlapped because the writing head stays below the read position), conditional repoint, "
        "hint write, source clearing, final truncation. C03_reachable_states_qualify: every state reachable by client operations and clean "
        "restarts (C02's invariant) meets the precondition provided no record extends past DataFileMax. C03_any_number_of_passes: the state after a pass satisfies relation AND precondition again, so "
        "any sequence of passes over any legal ranges (previously collected files) preserves every read; C03_gc_preserves_reads_any_merge / "
        "C03_any_passes_any_merge: the same for merge=on (on a collision-free key set the hint merge finds no collision, leaves data, tree and "
        "collision table untouched, and the pass equals the pass without merge started after it). C03_gc_then_history: a pass followed by "
        "ANY history of client operations answers exactly as the reference map, the pass being invisible. Correspondence: 120 GC-mode histories "
        "per quick run (half of them a dense profile that fills and switches destinations), range resolved by the real range check, merge on/off, "
        "repeated passes, restarts with index files removed afterwards, replies + GC statistics + directory contents compared with the model; "
        "python reference-map oracle.",
   note="The restart clause is now a theorem: C03_gc_reestablishes_restart_invariant -- a pass re-establishes the whole restart invariant of "
        "C02 (per-file layout, hint coverage of every file, tree = replay of the record log read positionally) plus NL / NZ / FMok, so C02_restart "
        "applies after any number of passes; C03_histories_with_gc_and_restarts -- ALL histories mixing client operations, clean restarts (any "
        "index files removed) and GC passes (any range, either merge flag) at ANY positions answer as the reference map (proofs/GcX1..GcX6.v, "
        "about 1900 lines). PARTIAL: colliding keys and check_vhash=on are covered by correspondence + oracle only; each GC request must meet a "
        "state with its range below the head file, no record past DataFileMax and at least one hint file written since creation (side "
        "condition [ready], state-dependent like the range itself; a computable version is used for the non-vacuity example). 'No record past "
        "DataFileMax' is necessary: with BodyMax above DataFileMax the real pass fills files above the head file and a later client write that "
        "rotates into one of them ends the process (open known finding F24, replayed each run from findings/F24_abort.json in its own process; the "
        "generator stops writing to a store in that state). Trusted: Coq "
        "kernel, translator (flags gc_repoint_conditional, gc_truncates_after_inplace), harness, python oracle. No axioms.",
   technique="Rocq loop-invariant proofs: a GC pass preserves the refinement relation AND re-establishes the restart invariant (all states, ranges, merge flags); history theorem over client operations, restarts and passes; differential correspondence on GC histories incl. directory contents",
   design="6/C03")
CLAIMED["C06"] = dict(
   text="Theorems (coq/props/C06.v), crash model = SIGKILL keeps completed writes and loses memory; in the bucket model the directory left by a kill "
        "is dir_of b rm (data files as flushed so far, hint splits already dumped minus ANY set rm of files -- which also covers a dump caught "
        "between temp file and rename --, tree image if any) and start-up is bucket.open on it. (1) C06_kill_after_flush: for ALL states reachable "
        "by client operations and restarts in which every write buffer is empty (right after a flush, so every acknowledged write is durable), ANY "
        "subset of hint files present, tree image absent: start-up is not refused, the invariant is re-established and every live key reads exactly "
        "its last write; deleted keys stay deleted (re-use of the C02 machinery: start-up is proved on ANY prefix of a chunk's hint files + rescan of "
        "the tail). (2) C06_refused_iff_partial_block: for EVERY directory state start-up refuses exactly when an existing data file's size is not "
        "a multiple of 256. (3) C06_read_is_checked: a positional read returns a record only after size limits and CRC over exactly the returned "
        "bytes matched (never a torn value, up to CRC collisions). (4) the general clause (kill at ANY moment) is REFUTED for the code as it stands: "
        "C06_hint_ahead_of_data_refuted (known finding F10) -- a hint split dumped while its records are still buffered makes a durable key answer "
        "an error after the kill; witness evaluated on the model. Tie to the code: crash suite -- the real store is snapshotted at every file-system "
        "mutation point (data append/flush, hint tmp/rename, tree tmp/rename/remove, collision and GC-state writes) of seeded histories, plus torn "
        "variants of the last append (every 256-byte boundary and unaligned cuts); each snapshot is reopened in a FRESH process and every key read; "
        "python oracle: value really written for that key, at least as new as the last flushed write, or explicit refusal only for a torn tail "
        "(1140 snapshots per quick run); bucket.open itself is tied to the code by the C02 correspondence.",
   note="PARTIAL: kills with unflushed data, with a tree image on disk, and torn appends are decided by the crash suite + oracle, not by theorem; "
        "F10 is an open finding. fsync / page-cache semantics are not modelled (completed write = durable). Trusted: Coq kernel, harness "
        "(verifPoint snapshots, fresh-process reopen), python oracle. No axioms.",
   technique="Rocq proof of start-up on the directory left by a kill at a flushed moment (any subset of hint files) + refusal characterisation + read soundness; refutation witness; crash-point enumeration on the real store with fresh-process reopen",
   design="6/C06")
CLAIMED["C07"] = dict(
   text="Theorems (coq/props/C07.v): (1) C07_record_step_keeps_invariant / C07_invariant_means_same_reads -- the GC loop invariant (proofs/GcView.v) is "
        "preserved by EVERY per-record step (drop, copy, destination switch with truncation, in-place overwrite) and implies that every key reads "
        "its pre-GC entry and that no data write of the pass has touched a record the index references or that is still to be processed: inside "
        "the running process the pass is safe at every record boundary, for all states, ranges and records. (2) ACROSS A KILL the property is "
        "REFUTED for the code as it stands: C07_stale_tail_refuted (known finding F4) -- layout [J1 K1][K2 K3][J2 M][Z], gc(0,2), killed when "
        "files 0 and 1 are done: the in-place rewritten file 0 holds K3 and, behind it, the stale K1; the rebuilt index makes key K, never "
        "written during the pass, revert from k3 to k1. Witness evaluated on an explicit kill model (pass stopped after the n-th copy or after k "
        "source files, files scanned in offset order, bucket.open on the remains). Tie to the code: crash suite over GC passes -- snapshots at "
        "every mutation point inside a pass (each relocated-record append, truncate, source clear, hint dump/clear, GC-state write; after a clean "
        "restart so that a tree image exists) + torn variants of the last relocated record, fresh-process reopen, python oracle 'every key not "
        "written during the pass reads its pre-GC value' (about 590 snapshots per quick run); the F4 class is recorded by mutation point and kind.",
   note="PARTIAL: no positive crash theorem beyond the in-process invariant -- the on-disk rebuild after a kill inside a pass is decided by the "
        "crash suite + oracle; F4 is an open finding (a candidate repair exists as model flag gc_truncates_after_inplace but changes which files "
        "an emptied range leaves behind). The kill model is validated by the witness only. Trusted: Coq kernel, harness, python oracle. No axioms.",
   technique="Rocq loop-invariant proof for every step of a pass (in-process safety) + refutation witness on an explicit kill model; crash-point enumeration inside GC on the real store",
   design="6/C06-C07")
CLAIMED["C18"] = dict(
   text="Theorems (coq/props/C18.v), for ALL ranges begin <= end below the head file and ALL bucket states satisfying the C01 refinement relation "
        "and the GC precondition of C03 (met by every state reachable by client operations and clean restarts), for a pass without hint merge: "
        "(1) C18_range_files_hold_only_current_records -- every record an independent scan finds afterwards in any file of the range is the record "
        "the index points at for its key (by C03 the one every read returns: a live value or a retained tombstone), or a tombstone of a key the "
        "index has forgotten kept because GC did not start at file 0; and it is the only record at its offset; (2) C18_each_indexed_key_once -- two "
        "records of one indexed key cannot both survive; (3) C18_pass_layout -- there is a last destination D: files dst0..D hold only current "
        "records above the old end W0 of dst0, files D+1..end are EMPTY (space returned), the records of the earlier file dst0 below W0 are exactly "
        "those that were there before and none straddles W0 (GC only appended to it), the files between dst0 and begin were empty beforehand. "
        "(3b) C18_second_pass_releases_nothing -- the same pass run again on the state the first one left releases 0 records / 0 bytes (the "
        "state satisfies the GC precondition again, every record the second pass meets is current). "
        "Proof: a region invariant (GC2), a prefix invariant (GP) and an offset-order invariant (GS) carried through every per-record step (drop / "
        "append / destination switch with truncation) and every source file alongside C03's loop invariant, and a second-pass invariant (GR) "
        "(proofs/GcView.v, about 800 further lines). (4) The clause 'each "
        "exactly once' is REFUTED for forgotten tombstones: C18_dup_tombstone_refuted (known finding F11) evaluates the layout [P Q][K1 Kdel]"
        "[K2 Kdel][Y Z][W], restart with the tree rebuilt, gc(1,2) on the model: tombstones -2 and -4 of K both survive; (1) shows this is the only "
        "way a superseded record survives. Correspondence: 120 GC-mode histories per quick run (half of them dense: destinations fill and switch), "
        "every data file scanned by an independent record scanner before and after each pass, directory contents + GC counters compared with the "
        "model; python oracle: every surviving record in the range is its key's current record (position from meta-get), no duplicate tombstones "
        "(F11 class recorded), prefix of an earlier destination unchanged, the same pass run again releases nothing.",
   note="PARTIAL: colliding keys are decided by correspondence + oracle, not by a theorem (merge=on is covered: C18_*_any_merge); records are modelled as (offset, record) lists per file, so 'byte-for-byte unchanged' is 'the same records at the "
        "same offsets' in the theorem and bytes only in the directory comparison of the correspondence. F11 is an open finding. Trusted: Coq "
        "kernel, translator, harness incl. independent scanner, python oracle. No axioms.",
   technique="Rocq loop-invariant proof over all states/ranges of what the written files contain after a pass + refutation witness; differential correspondence with independent file scanner and spec oracle",
   design="6/C18")
NOT_YET = {}
props = [json.loads(l) for l in open(os.path.join(V, "properties.jsonl"))]
checks = []
na = []
for p in props:
    pid = p["id"]
    if pid in CLAIMED:
        c = CLAIMED[pid]
        checks.append(dict(property_id=pid, quick_cmd="./check %s quick" % pid, thorough_cmd="./check %s thorough" % pid,
                           evidence_file="evidence/%s.json" % pid, replay_cmd_template="./check %s --replay {path}" % pid,
                           engine="rocq-proof+correspondence",
                           level_claimed=dict(category="proof", text=c["text"], design_ref="DESIGN.md section " + c["design"]),
                           level_note=c["note"], technique=c["technique"]))
    else:
        na.append(dict(property_id=pid, reason=NOT_YET.get(pid, "not yet built in this revision of /verif (planned, see DESIGN.md section 9); no check is registered so nothing is claimed")))
hooks_commits = subprocess.check_output(["git", "-C", "/repo", "log", "--format=%H %s"], text=True).strip().split("\n")
hooks_commits = [l.split()[0] for l in hooks_commits if l.split(" ", 1)[1].startswith("verif:")]
m = dict(version=1, setup_cmd="./setup.sh",
         hooks=dict(guard="verif", enable="go build -tags verif (harness module replaces github.com/douban/gobeansdb => /repo)",
                    baseline_off_cmd="cd /repo && GOFLAGS=-mod=mod GOPROXY=off GOSUMDB=off GOTOOLCHAIN=local go test -vet=off -count=1 -timeout 25m ./...",
                    source_commits=hooks_commits, add_only=True),
         engines=[dict(name="rocq-proof+correspondence", path="check", serves_properties=sorted(CLAIMED),
                       kind_free_text="Coq 8.16.1 theorems over a hand-written executable model; constants regenerated from /repo by tools/gen_consts.py; "
                                      "Go harness (-tags verif) runs the implementation on seeded cases, the same cases are evaluated by model and spec inside Coq (vm_compute)")],
         checks=checks, not_applicable=na,
         notes="See DESIGN.md. One entry point: ./check <id> <quick|thorough> [--replay f]. Known findings: known_findings.json.")
json.dump(m, open(os.path.join(V, "MANIFEST.json"), "w"), indent=1)
print("MANIFEST.json written:", len(checks), "checks,", len(na), "not claimed")
