#!/bin/bash
# Re-run every seeded change (seeded/<id>/patch.diff) against the property's quick check on a scratch copy of /repo.
# Usage: tools/seeded_regress.sh [ids...]   (run from /verif or a snapshot of it); prints one line per id.
cd "$(dirname "$0")/.."
V=$(pwd)
ids=${@:-$(ls seeded | grep '^C')}
base=/tmp/seedrun_$$
for id in $ids; do
  d=$base/$id
  rm -rf "$d"; mkdir -p "$d"
  rsync -a --exclude .git /repo/ "$d"/
  if ! (cd "$d" && patch -p1 -s < "$V/seeded/$id/patch.diff"); then echo "$id: PATCH-FAILED"; rm -rf "$d"; continue; fi
  out=$(VERIF_REPO="$d" ./check "$id" quick 2>&1); rc=$?
  if [ $rc -eq 1 ] && echo "$out" | grep -q "^VIOLATION property=$id "; then echo "$id: caught ($(echo "$out" | grep '^VIOLATION' | head -1 | cut -c1-160))"; else echo "$id: MISSED rc=$rc $(echo "$out" | tail -1 | cut -c1-160)"; fi
  rm -rf "$d"
done
rm -rf "$base"
