#!/usr/bin/env python3
"""debug helper: summarise L2 mismatches, or print the model's view at one op of one case"""
import sys, os, json, collections
sys.path.insert(0, os.path.dirname(os.path.dirname(os.path.abspath(__file__))))
from lib import vlib, l2common
class C: pass
ctx = C(); ctx.work = '/verif/out/DBG'; ctx.logf = print; ctx.tier = 'quick'
os.makedirs(ctx.work, exist_ok=True)
vlib.go_build()
mode, seed, count = sys.argv[1], int(sys.argv[2]), int(sys.argv[3])
ctx.seed = seed
cases = l2common.gen_cases(ctx, mode, count, seed)
if len(sys.argv) > 4:
    i, idx = int(sys.argv[4]), int(sys.argv[5])
    c = [x for x in cases if x['i'] == i][0]
    print(json.dumps(c['cfg']))
    for n, o in enumerate(c['ops'][:idx + 1]):
        d = {k: (v if not isinstance(v, str) or len(v) < 12 else v[:12] + '..') for k, v in o.items() if k not in ('dir', 'z')}
        if 'out' in d: d['out'] = [x[:12] for x in d['out']]
        print(n, d)
    dd = c['ops'][idx].get('dir')
    if dd: print('IMPL DIR', [(f['chunk'], f['size'], [(r[0], r[1][:8], r[2]) for r in f['recs']]) for f in dd['data']], dd['hints'], dd['trees'], dd['merged'], dd['other'])
    c2 = dict(c); c2['ops'] = c['ops'][:idx + 1]
    txt = l2common.HEADER + "Definition cs : list l2case := [" + l2common.coq_case(c2) + "].\n"
    txt += """Definition runres := Eval vm_compute in
  match cs with (i, lc, ops) :: _ =>
    fold_left (fun st o => match fst st with Some b => l2_step lc b (fst (fst o)) | None => st end) ops (Some bucket0, MOut XOk)
  | _ => (None, MOut XOk) end.
Definition final := Eval vm_compute in fst runres.
Definition short (k : list N) := firstn 4 k.
Eval vm_compute in (match snd runres with MOut o => o | MHit v f => XHit "" f end).
Eval vm_compute in match final with Some b => (map (fun x => (fst x, map (fun r => (fst (fst r), short (snd (fst r)), snd r)) (snd x))) (model_data b), model_hints b, map fst (b_treefiles b), (b_head b, b_hmax b, b_maxdumped b, b_treeid b, b_nextgc b),
   map (fun it => (short (HintFile.hi_key it), HintFile.hi_chunk it, HintFile.hi_off it, HintFile.hi_ver it)) (b_ctab b),
   map (fun hc => map (fun sp => (sp_file sp, map (fun it => (short (HintFile.hi_key it), HintFile.hi_off it, HintFile.hi_ver it)) (sp_items sp), sp_max sp)) (hc_splits hc)) (firstn 5 (b_hints b))) | None => ([], [], [], (O, O, (O,0%Z), (O,0%Z), O), [], []) end.
"""
    txt += "Definition lastdir := match cs with (i, lc, ops) :: _ => snd (last ops (ODir, XOk, None)) | _ => None end.\n"
    txt += """Eval vm_compute in match final, lastdir with Some b, Some s => (data_eqb (model_data b) (sn_data s), model_hints b, sn_hints s, map fst (b_treefiles b), sn_trees s, sn_merged s, sn_ct s, sn_nextgc s) | _, _ => (false, [], [], [], [], [], false, false) end.\n"""
    rc, out = vlib.run_coq_cases(ctx.work, "dbg", txt)
    print(out[-2500:])
else:
    mm, ns, ok = l2common.evaluate(ctx, cases, 'dbg')
    cnt = collections.Counter((m.get('differs'), m.get('op', {}).get('op')) for m in mm)
    print(cnt)
    for m in mm[:25]:
        print(m['case']['i'], m['op_index'], m['differs'], m['op'].get('op'), m['op'].get('res'))
