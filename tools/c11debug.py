#!/usr/bin/env python3
import sys, os, json
sys.path.insert(0, '/verif')
from lib import vlib, protocommon as pc
class C: pass
ctx = C(); ctx.work = '/verif/out/DBG'; ctx.logf = lambda *a: None; ctx.tier = 'quick'
os.makedirs(ctx.work, exist_ok=True)
vlib.go_build()
seed, count = int(sys.argv[1]), int(sys.argv[2])
cases = pc.gen_cases(ctx, count, seed)
mm, ns, ok = pc.evaluate(ctx, cases, 'dbg')
print([(m.get('case',{}).get('i'), m.get('differs','')[:12], m.get('out','')[:200]) for m in mm])
if len(sys.argv) > 3:
    i = int(sys.argv[3])
    c = [x for x in cases if x['i'] == i][0]
    txt = pc.HEADER + "Definition c := " + pc.coq_case(c) + ".\n"
    txt += """Definition res := Eval vm_compute in
      fold_left (fun (st : RefMap.smap * acct * list (list N)) (cn : string * string) =>
                 let '(m, a, outs) := st in
                 let '(m', out, a') := rm_serve (y_pc c) m (unhex (fst cn)) a in (m', a', List.app outs [out])) (y_conns c) ([], acct0, []).
Definition outs := Eval vm_compute in snd res. Definition ac := Eval vm_compute in snd (fst res).
Print outs. Print ac.
"""
    rc, out = vlib.run_coq_cases(ctx.work, "dbg11", txt)
    import re
    m = re.search(r"outs\s*=\s*(.*?)\n\s*:\s", out, re.S)
    if not m:
        print(out[-1500:]); sys.exit(1)
    body = m.group(1)
    lists = re.findall(r"\[([0-9; \n]*)\]", body)
    for n, (cn, l) in enumerate(zip(c['conns'], [x for x in lists if True])):
        model = bytes(int(x) for x in re.findall(r"\d+", l))
        impl = pc.canonical(bytes.fromhex(cn['out']))[0]
        print('--- conn', n, 'mut', cn['mut'])
        if model != impl:
            k = 0
            while k < min(len(model), len(impl)) and model[k] == impl[k]: k += 1
            print('STREAM', bytes.fromhex(cn['stream'])[:700])
            print('first diff at', k)
            print('MODEL', model[max(0, k - 80):k + 120])
            print('IMPL ', impl[max(0, k - 80):k + 120])
    print(out[out.find('ac ='):][:300])
    print('impl acct', c['acct'])
