package main

import (
	"encoding/binary"
	"encoding/hex"
	"encoding/json"
	"fmt"
	"hash/crc32"
	"io"
	"io/ioutil"
	"os"
	"os/exec"
	"path/filepath"
	"strconv"
	"strings"
	"sync"
	"sync/atomic"
	"time"

	"github.com/douban/gobeansdb/loghub"
	"github.com/douban/gobeansdb/store"
)

// ---- crash suites (C06: kill in normal operation, C07: kill during GC) ----

type crec struct {
	Chunk int    `json:"chunk"`
	Off   int    `json:"off"`
	K     string `json:"k"`
	Ver   int32  `json:"ver"`
	TS    uint32 `json:"ts"`
	Flag  uint32 `json:"flag"`
	VLen  int    `json:"vlen"`
	VCrc  uint32 `json:"vcrc"`
}

type reopenKey struct {
	K string   `json:"k"`
	G string   `json:"g"` // MISS | HIT | ERR
	V string   `json:"v,omitempty"`
	F string   `json:"f,omitempty"`
	M []string `json:"m,omitempty"` // meta fields when META
	MR string  `json:"mr"`         // MISS | META | ERR
}

type reopenRes struct {
	Status string      `json:"status"` // OK | REFUSE | CRASH
	Keys   []reopenKey `json:"keys"`
	Log    string      `json:"log,omitempty"`
	Files  []string    `json:"files,omitempty"` // directory as the reopening process found it
}

type csnap struct {
	N       int       `json:"n"`
	Point   string    `json:"point"`
	OpIdx   int       `json:"opidx"`
	Variant string    `json:"variant"` // "" or "cut:<chunk>:<size>"
	Recs    []crec    `json:"recs"`    // every complete record in the data files of this state
	Sizes   map[string]int64 `json:"sizes"`
	Files   []string  `json:"files"`
	HintDS  map[string]uint32 `json:"hintds"` // data size recorded in each hint file
	Reopen  reopenRes `json:"reopen"`
}

type crashCase struct {
	I     int     `json:"i"`
	Kind  string  `json:"kind"`
	Cfg   l2cfg   `json:"cfg"`
	Ops   []l2op  `json:"ops"`
	Keys  []string `json:"keys"`
	GCAt  int     `json:"gcat"` // index of the GC op (gc mode), -1 otherwise
	Snaps []csnap `json:"snaps"`
}

func hintSizes(dir string) map[string]uint32 {
	res := map[string]uint32{}
	ms, _ := filepath.Glob(filepath.Join(dir, "*.idx.s"))
	for _, m := range ms {
		b, err := ioutil.ReadFile(m)
		if err == nil && len(b) >= 16 {
			res[filepath.Base(m)] = binary.LittleEndian.Uint32(b[12:16])
		}
	}
	return res
}

func scanRecs(dir string) (recs []crec, sizes map[string]int64, files []string) {
	sizes = map[string]int64{}
	ents, _ := ioutil.ReadDir(dir)
	for _, e := range ents {
		n := e.Name()
		files = append(files, n)
		if !strings.HasSuffix(n, ".data") {
			continue
		}
		ck, _ := strconv.Atoi(n[:3])
		data, err := ioutil.ReadFile(filepath.Join(dir, n))
		if err != nil {
			continue
		}
		sizes[n] = int64(len(data))
		for off := 0; off+24 <= len(data); {
			crc := binary.LittleEndian.Uint32(data[off:])
			ts := binary.LittleEndian.Uint32(data[off+4:])
			flag := binary.LittleEndian.Uint32(data[off+8:])
			ver := int32(binary.LittleEndian.Uint32(data[off+12:]))
			ksz := int(binary.LittleEndian.Uint32(data[off+16:]))
			vsz := int(binary.LittleEndian.Uint32(data[off+20:]))
			if ksz >= 1 && ksz <= 250 && vsz >= 0 && vsz <= (64<<20) && off+24+ksz+vsz <= len(data) &&
				crc32.ChecksumIEEE(data[off+4:off+24+ksz+vsz]) == crc {
				recs = append(recs, crec{ck, off, hex.EncodeToString(data[off+24 : off+24+ksz]), ver, ts, flag, vsz,
					crc32.ChecksumIEEE(data[off+24+ksz : off+24+ksz+vsz])})
				off += (24 + ksz + vsz + 255) / 256 * 256
			} else {
				off += 256
			}
		}
	}
	return
}

func copyDir(src, dst string) error {
	os.MkdirAll(dst, 0755)
	ents, err := ioutil.ReadDir(src)
	if err != nil {
		return err
	}
	for _, e := range ents {
		if e.IsDir() {
			continue
		}
		in, err := os.Open(filepath.Join(src, e.Name()))
		if err != nil {
			if os.IsNotExist(err) {
				continue // removed meanwhile
			}
			return err
		}
		out, err := os.Create(filepath.Join(dst, e.Name()))
		if err != nil {
			in.Close()
			return err
		}
		_, cerr := io.Copy(out, in)
		in.Close()
		out.Close()
		if cerr != nil {
			return cerr
		}
	}
	return nil
}

func init() {
	// reopen <dir> <cfgjson> key...: opens the store on the directory and dumps every key (fresh process: Fatalf = exit 1)
	suites["reopen"] = func(seed uint64, count int, out *Out, args []string) error {
		loghub.ErrorLogger.SetLevel(loghub.FATAL)
		var cf l2cfg
		if err := json.Unmarshal([]byte(args[1]), &cf); err != nil {
			return err
		}
		run := &l2runner{home: args[0], cfg: cf, forced: map[string]uint64{}}
		res := reopenRes{Status: "OK"}
		if ents, e := ioutil.ReadDir(args[0]); e == nil {
			for _, en := range ents {
				res.Files = append(res.Files, fmt.Sprintf("%s:%d", en.Name(), en.Size()))
			}
		}
		if err := run.open(); err != nil {
			res.Status = "REFUSE"
			out.Emit(res)
			return nil
		}
		for _, k := range args[2:] {
			g := l2op{Op: "G", K: k}
			run.exec(&g)
			m := l2op{Op: "M", K: k}
			run.exec(&m)
			rk := reopenKey{K: k, G: g.Res, MR: m.Res, M: m.Out}
			if g.Res == "HIT" {
				rk.V, rk.F = g.Out[0], g.Out[1]
			}
			res.Keys = append(res.Keys, rk)
		}
		out.Emit(res)
		return nil
	}

	suites["crash"] = func(seed uint64, count int, out *Out, args []string) error {
		loghub.ErrorLogger.SetLevel(loghub.FATAL)
		mode := "normal"
		if len(args) > 0 {
			mode = args[0]
		}
		maxSnaps := 40
		if len(args) > 1 {
			maxSnaps, _ = strconv.Atoi(args[1])
		}
		r := NewRng(seed)
		root, err := ioutil.TempDir("", "verif-crash-")
		if err != nil {
			return err
		}
		keep := os.Getenv("VERIF_KEEP") != ""
		if !keep {
			defer os.RemoveAll(root)
		} else {
			println("keeping", root)
		}
		self, _ := os.Executable()
		now := time.Now().Unix()
		for i := 0; i < count; i++ {
			c := crashCase{I: i, Kind: mode, GCAt: -1}
			cf := &c.Cfg
			cf.NB, cf.Bucket, cf.Height = 1, 0, 3
			cf.FileMax = []int64{1024, 1536, 2048, 4096}[r.Intn(4)]
			cf.BodyMax = []int64{512, 2048}[r.Intn(2)]
			cf.SplitCap = []int64{2, 3, 4, 1 << 20}[r.Intn(4)]
			cf.CheckVHash = r.Chance(20)
			cf.TreeDump, cf.NoGCDays, cf.Now = 3, 1, now
			home := filepath.Join(root, fmt.Sprintf("case%d", i))
			os.MkdirAll(home, 0755)
			run := &l2runner{home: home, cfg: *cf, forced: map[string]uint64{}}
			var keys [][]byte
			for len(keys) < 3+r.Intn(3) {
				keys = append(keys, validKeyInBucket(r, 1, 0, nil))
			}
			for _, k := range keys {
				c.Keys = append(c.Keys, hex.EncodeToString(k))
			}
			// snapshot machinery
			var mu sync.Mutex
			opIdx := 0
			armed := false
			snapN := 0
			type pending struct {
				dir, point string
				opidx      int
			}
			var pend []pending
			store.VerifSetPointFn(func(name string) {
				if name == "open.bgcheck.done" {
					atomic.AddInt64(&openDone, 1)
					return
				}
				mu.Lock()
				defer mu.Unlock()
				if !armed {
					return
				}
				d := filepath.Join(root, fmt.Sprintf("snap_%d_%d", i, snapN))
				snapN++
				if copyDir(home, d) == nil {
					pend = append(pend, pending{d, name, opIdx})
				}
			})
			if err := run.open(); err != nil {
				return err
			}
			baseTS := uint32(now - 30*86400)
			nops := 14 + r.Intn(22)
			gcDone := false
			for n := 0; n < nops; n++ {
				j := r.Intn(len(keys))
				op := l2op{K: hex.EncodeToString(keys[j])}
				p := r.Intn(100)
				switch {
				case p < 52:
					op.Op = "S"
					op.V = hex.EncodeToString(genValue(r, false))
					if int64(len(op.V)/2) > cf.BodyMax {
						op.V = op.V[:int(cf.BodyMax)*2]
					}
					op.TS = baseTS + uint32(n)
				case p < 64:
					op.Op = "D"
				case p < 78:
					op.Op = "F"
					op.K = ""
				case p < 86:
					op.Op = "H"
					op.K = ""
				case p < 92 && mode == "gc" && !gcDone && n > nops/2:
					run.hs.VerifFlush()
					cr := l2op{Op: "CR", A: r.Intn(3) - 1, B: -1, Days: 1}
					run.exec(&cr)
					if cr.Res != "RANGE" {
						continue
					}
					op.Op, op.K = "C", ""
					op.A, _ = strconv.Atoi(cr.Out[0])
					op.B, _ = strconv.Atoi(cr.Out[1])
					op.Merge = false
					gcDone = true
					c.GCAt = len(c.Ops)
				case p < 96 && (mode == "normal" || (mode == "gc" && !gcDone)):
					// in gc mode: a clean restart before the pass, so that a tree image (*.idx.hash) is on disk when GC starts
					op.Op, op.K = "R", ""
					op.RmTrees = mode == "normal" && r.Bool()
				default:
					op.Op = "G"
				}
				if op.Op == "" {
					continue
				}
				mu.Lock()
				opIdx = len(c.Ops)
				armed = mode == "normal" || op.Op == "C"
				mu.Unlock()
				run.exec(&op)
				run.hs.VerifWaitIdle()
				mu.Lock()
				armed = false
				mu.Unlock()
				spilled := op.Op == "C" && spilledPastHead(op.Dir, run.hs.VerifHead(cf.Bucket))
				op.Dir = nil
				c.Ops = append(c.Ops, op)
				if spilled { // known finding F24 (see l2.go): any further write would end this process
					break
				}
			}
			if mode == "normal" { // the clean shutdown itself is part of normal operation
				mu.Lock()
				opIdx = len(c.Ops)
				armed = true
				mu.Unlock()
				run.hs.VerifWaitIdle()
				run.hs.Close()
				mu.Lock()
				armed = false
				mu.Unlock()
				c.Ops = append(c.Ops, l2op{Op: "CLOSE", Res: "OK"})
			} else {
				run.hs.VerifWaitIdle()
				run.hs.Close()
			}
			store.VerifSetPointFn(nil)
			// choose snapshots (all if few), add torn variants of the last data append
			step := 1
			if len(pend) > maxSnaps {
				step = (len(pend) + maxSnaps - 1) / maxSnaps
			}
			type job struct {
				dir     string
				s       *csnap
			}
			var jobs []job
			prevSizes := map[string]int64{}
			for pi, pd := range pend {
				recs, sizes, files := scanRecs(pd.dir)
				if pi%step == 0 {
					c.Snaps = append(c.Snaps, csnap{N: len(c.Snaps), Point: pd.point, OpIdx: pd.opidx, Recs: recs, Sizes: sizes, Files: files, HintDS: hintSizes(pd.dir)})
					jobs = append(jobs, job{pd.dir, nil})
				}
				if (pd.point == "data.flushed" || pd.point == "gc.appended") && (pi%step == 0 || r.Chance(30)) {
					// the data file that grew since the previous snapshot: cut it back at block boundaries and unaligned
					for name, sz := range sizes {
						old := prevSizes[name]
						if sz <= old {
							continue
						}
						cuts := []int64{}
						for b := old/256*256 + 256; b < sz; b += 256 {
							cuts = append(cuts, b)
						}
						cuts = append(cuts, old+1+int64(r.Intn(int(sz-old))), sz-1)
						if len(cuts) > 5 {
							cuts = append(cuts[:2], cuts[len(cuts)-3:]...)
						}
						seenCut := map[int64]bool{}
						for _, cut := range cuts {
							if cut <= old || cut >= sz || seenCut[cut] {
								continue
							}
							seenCut[cut] = true
							vd := fmt.Sprintf("%s_cut_%s_%d", pd.dir, name[:3], cut)
							if copyDir(pd.dir, vd) != nil {
								continue
							}
							os.Truncate(filepath.Join(vd, name), cut)
							vrecs, vsizes, vfiles := scanRecs(vd)
							c.Snaps = append(c.Snaps, csnap{N: len(c.Snaps), Point: pd.point, OpIdx: pd.opidx,
								Variant: fmt.Sprintf("cut:%s:%d", name[:3], cut), Recs: vrecs, Sizes: vsizes, Files: vfiles, HintDS: hintSizes(vd)})
							jobs = append(jobs, job{vd, nil})
						}
					}
				}
				prevSizes = sizes
			}
			// reopen every chosen state in a fresh process
			cfgJSON, _ := json.Marshal(run.cfg)
			var wg sync.WaitGroup
			sem := make(chan int, 4)
			for ji := range jobs {
				wg.Add(1)
				go func(ji int) {
					defer wg.Done()
					sem <- 1
					defer func() { <-sem }()
					work := fmt.Sprintf("%s_open%d", jobs[ji].dir, ji)
					if err := copyDir(jobs[ji].dir, work); err != nil {
						c.Snaps[ji].Reopen = reopenRes{Status: "SKIP"}
						return
					}
					argv := append([]string{"reopen", work, string(cfgJSON)}, c.Keys...)
					cmd := exec.Command(self, argv...)
					var errb strings.Builder
					cmd.Stderr = &errb
					outb, err := cmd.Output()
					var rr reopenRes
					if err != nil || json.Unmarshal(outb, &rr) != nil {
						rr = reopenRes{Status: "REFUSE"}
						if ee, ok := err.(*exec.ExitError); ok && ee.ExitCode() != 1 {
							rr.Status = "CRASH"
						}
					}
					if l := errb.String(); len(l) > 0 {
						if len(l) > 300 {
							l = l[len(l)-300:]
						}
						rr.Log = l
					}
					c.Snaps[ji].Reopen = rr
					os.RemoveAll(work)
				}(ji)
			}
			wg.Wait()
			if !keep {
				for _, pd := range pend {
					os.RemoveAll(pd.dir)
				}
				ms, _ := filepath.Glob(filepath.Join(root, fmt.Sprintf("snap_%d_*", i)))
				for _, m := range ms {
					os.RemoveAll(m)
				}
				os.RemoveAll(home)
			}
			out.Emit(c)
		}
		return nil
	}
}
