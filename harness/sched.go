package main

import (
	"encoding/hex"
	"encoding/json"
	"fmt"
	"io/ioutil"
	"math/rand"
	"os"
	"os/exec"
	"path/filepath"
	"runtime"
	"sort"
	"strconv"
	"sync"
	"sync/atomic"
	"time"

	"github.com/douban/gobeansdb/cmem"
	"github.com/douban/gobeansdb/loghub"
	mc "github.com/douban/gobeansdb/memcache"
	"github.com/douban/gobeansdb/store"
)

// ---- controlled scheduling at verifPoints (C04, C05, C17, C02 schedule clause) ----

type parkRule struct {
	skip    int
	arrived chan struct{}
	release chan struct{}
}

type parker struct {
	mu    sync.Mutex
	rules map[string]*parkRule
	yield int32 // stress mode: 1-in-n points yield
	rng   *rand.Rand
}

func (p *parker) arm(name string, skip int) *parkRule {
	r := &parkRule{skip: skip, arrived: make(chan struct{}, 1), release: make(chan struct{})}
	p.mu.Lock()
	p.rules[name] = r
	p.mu.Unlock()
	return r
}

func (p *parker) fn(name string) {
	if name == "open.bgcheck.done" {
		atomic.AddInt64(&openDone, 1)
		return
	}
	p.mu.Lock()
	r := p.rules[name]
	if r != nil {
		if r.skip > 0 {
			r.skip--
			r = nil
		} else {
			delete(p.rules, name)
		}
	}
	y := p.yield
	var roll int
	if y > 0 {
		roll = p.rng.Intn(int(y))
	}
	p.mu.Unlock()
	if r != nil {
		r.arrived <- struct{}{}
		<-r.release
		return
	}
	if y > 0 && roll == 0 {
		if roll%2 == 0 {
			runtime.Gosched()
		}
		time.Sleep(time.Duration(50+roll) * time.Microsecond)
	}
}

type schedResult struct {
	I        int               `json:"i"`
	Scenario string            `json:"scenario"`
	Variant  string            `json:"variant"`
	Obs      map[string]string `json:"obs"`
	Hist     []histOp          `json:"hist,omitempty"`
	Final    map[string]string `json:"final,omitempty"`
	Cfg      *l2cfg            `json:"cfg,omitempty"`
	Evs      []schedEv         `json:"evs,omitempty"`
	GI       *gcIntrTrace      `json:"gi,omitempty"`
}

type gcIntrTrace struct {
	Cfg    l2cfg  `json:"cfg"`
	Pre    []l2op `json:"pre"`
	A      int    `json:"a"`
	B      int    `json:"b"`
	Merge  bool   `json:"merge"`
	Skip   int    `json:"skip"`
	Op     l2op   `json:"op"`
	Parked bool   `json:"parked"`
	GC     l2op   `json:"gc"`
	Post   []l2op `json:"post"`
}

type schedEv struct {
	Ev string `json:"ev"` // A atomic op, B read begins (parked after lookup), E read ends
	C  int    `json:"c"`
	Op l2op   `json:"o"`
}

func bytesRepeat(b byte, n int) []byte {
	x := make([]byte, n)
	for i := range x {
		x[i] = b
	}
	return x
}

type histOp struct {
	T     int    `json:"t"` // client
	Op    string `json:"op"`
	K     string `json:"k"`
	V     string `json:"v,omitempty"`
	Res   string `json:"res"`
	Out   string `json:"out,omitempty"`
	Ver   string `json:"ver,omitempty"`
	Start int64  `json:"s"`
	End   int64  `json:"e"`
}

func schedStore(root string, i int, filemax int64, splitcap int64) *l2runner {
	home := filepath.Join(root, fmt.Sprintf("s%d", i))
	os.MkdirAll(home, 0755)
	cf := l2cfg{NB: 1, Bucket: 0, Height: 3, FileMax: filemax, BodyMax: 2048, SplitCap: splitcap, TreeDump: 3, NoGCDays: 1, Now: time.Now().Unix()}
	return &l2runner{home: home, cfg: cf, forced: map[string]uint64{}}
}

func hx(s string) string { return hex.EncodeToString([]byte(s)) }

func (r *l2runner) do(op, k, v string) l2op {
	o := l2op{Op: op, K: hx(k), V: hx(v), TS: uint32(time.Now().Unix() - 30*86400)}
	r.exec(&o)
	return o
}

func resOf(o l2op) string {
	if o.Res == "HIT" {
		b, _ := hex.DecodeString(o.Out[0])
		return "HIT:" + string(b)
	}
	if o.Res == "META" {
		return "META:" + o.Out[0]
	}
	return o.Res
}

func init() {
	suites["sched"] = func(seed uint64, count int, out *Out, args []string) error {
		loghub.ErrorLogger.SetLevel(loghub.FATAL)
		root, err := ioutil.TempDir("", "verif-sched-")
		if err != nil {
			return err
		}
		defer os.RemoveAll(root)
		self, _ := os.Executable()
		pk := &parker{rules: map[string]*parkRule{}, rng: rand.New(rand.NewSource(int64(seed)))}
		store.VerifSetPointFn(pk.fn)
		which := "all"
		if len(args) > 0 {
			which = args[0]
		}
		n := 0
		emit := func(sc, variant string, obs map[string]string) {
			out.Emit(schedResult{I: n, Scenario: sc, Variant: variant, Obs: obs})
			n++
		}

		// ---- S1: a client write lands between GC's re-read of the slot and its repoint (C05) ----
		if which == "all" || which == "repoint" {
			for _, variant := range []string{"set@repoint", "delete@repoint", "set@copied", "delete@copied", "none@repoint", "set@collide", "delete@collide"} {
				run := schedStore(root, n, 512, 1<<20)
				collide := variant[len(variant)-7:] == "collide"
				if collide { // K and Q share one key hash: K is served from the collision table
					run.forced["K"] = 0x1234567890abcdef
					run.forced["Q"] = 0x1234567890abcdef
				}
				if err := run.open(); err != nil {
					return err
				}
				run.do("S", "X", "x1")
				run.do("S", "K", "k1") // file 0: [X1 K1]
				if collide {
					run.do("S", "Q", "q1")
					run.do("S", "A", "a1") // file 1: [Q1 A1]
				} else {
					run.do("S", "X", "x2")
					run.do("S", "A", "a1") // file 1: [X2 A1]
				}
				run.do("S", "B", "b1") // file 2 (head)
				run.hs.VerifFlush()
				obs := map[string]string{}
				if collide {
					obs["get_before_gc"] = resOf(run.do("G", "K", "")) // detects the collision: both keys enter the table
				}
				point := "gc.repoint.mid" // between GC's re-read of the slot and its repoint
				if variant[len(variant)-6:] == "copied" || collide {
					point = "gc.appended" // after the copy of K1 (first relocated record), before the repoint / hint update
				}
				skip := 0
				if collide {
					skip = 1 // X1 is copied first; park after the copy of K1
				}
				rule := pk.arm(point, skip)
				done := make(chan struct{})
				go func() {
					run.hs.VerifGC(0, 0, 1, false)
					close(done)
				}()
				select {
				case <-rule.arrived:
					obs["parked"] = "yes"
				case <-done:
					obs["parked"] = "no"
				case <-time.After(5 * time.Second):
					obs["parked"] = "timeout"
				}
				if obs["parked"] == "yes" {
					cdone := make(chan string, 1)
					go func() {
						switch variant[:3] {
						case "set":
							cdone <- resOf(run.do("S", "K", "k2"))
						case "del":
							cdone <- resOf(run.do("D", "K", ""))
						default:
							cdone <- "-"
						}
					}()
					select {
					case r := <-cdone:
						obs["client"] = r
						obs["client_ack"] = "while-gc-parked"
						close(rule.release)
					case <-time.After(300 * time.Millisecond):
						// the client is held back by the store (serialised with the GC step): let GC go on
						obs["client_ack"] = "after-gc-step"
						close(rule.release)
						obs["client"] = <-cdone
					}
					<-done
				}
				obs["get_after_gc"] = resOf(run.do("G", "K", ""))
				obs["meta_after_gc"] = resOf(run.do("M", "K", ""))
				obs["get_other"] = resOf(run.do("G", "A", ""))
				run.hs.VerifWaitIdle()
				run.hs.Close()
				if err := run.open(); err == nil {
					obs["get_after_restart"] = resOf(run.do("G", "K", ""))
					run.hs.Close()
				}
				os.RemoveAll(run.home)
				emit("repoint", variant, obs)
			}
		}

		// ---- S2: two GC requests for one bucket (C17) ----
		if which == "all" || which == "double" {
			for _, variant := range []string{"back-to-back", "parked-between-check-and-start"} {
				run := schedStore(root, n, 512, 1<<20)
				if err := run.open(); err != nil {
					return err
				}
				for j := 0; j < 6; j++ {
					run.do("S", fmt.Sprintf("k%d", j%3), fmt.Sprintf("v%d", j))
				}
				run.hs.VerifFlush()
				obs := map[string]string{}
				var rule *parkRule
				if variant != "back-to-back" {
					rule = pk.arm("gc.request.checked", 0)
				}
				type rr struct {
					b, e int
					err  error
				}
				c1 := make(chan rr, 1)
				go func() {
					b, e, err := run.hs.GC(0, 0, 1, 0, false, false)
					c1 <- rr{b, e, err}
				}()
				if rule != nil {
					select {
					case <-rule.arrived:
					case <-time.After(5 * time.Second):
						obs["parked"] = "timeout"
					}
				} else {
					r1 := <-c1
					obs["first"] = fmt.Sprint(r1.err == nil)
					c1 <- r1
				}
				b2, e2, err2 := run.hs.GC(0, 0, 1, 0, false, false)
				obs["second_accepted"] = fmt.Sprint(err2 == nil)
				obs["second_range"] = fmt.Sprint(b2, e2)
				if rule != nil {
					close(rule.release)
				}
				r1 := <-c1
				obs["first_accepted"] = fmt.Sprint(r1.err == nil)
				time.Sleep(300 * time.Millisecond)
				for w := 0; w < 200 && run.hs.IsGCRunning(); w++ {
					time.Sleep(10 * time.Millisecond)
				}
				obs["passes_started"] = strconv.Itoa(run.hs.VerifNumGCHistory(0))
				run.hs.VerifWaitIdle()
				run.hs.Close()
				os.RemoveAll(run.home)
				emit("double-gc", variant, obs)
			}
		}

		// ---- S3: clean shutdown while the post-rotation flush has not run yet (C02) ----
		if which == "all" || which == "closeflush" {
			for _, variant := range []string{"flush-parked", "flush-ran"} {
				run := schedStore(root, n, 512, 1<<20)
				if err := run.open(); err != nil {
					return err
				}
				obs := map[string]string{}
				run.do("S", "a", "va")
				run.do("S", "b", "vb") // chunk 0 full, both in the write buffer
				var rule *parkRule
				if variant == "flush-parked" {
					rule = pk.arm("data.flush.begin", 0)
				}
				o := l2op{Op: "S", K: hx("c"), V: hx("vc"), TS: 1}
				// the set rotates to chunk 1 and spawns the flush of chunk 0; do not wait for it
				item := &mc.Item{Flag: 0, Exptime: 0, ReceiveTime: time.Unix(1, 0)}
				item.CArray.Alloc(2)
				copy(item.CArray.Body, "vc")
				cmem.DBRL.SetData.AddSizeAndCount(item.CArray.Cap)
				ok, _ := run.client.Set("c", item, false)
				o.Res = fmt.Sprint(ok)
				if rule != nil {
					select {
					case <-rule.arrived:
						obs["parked"] = "yes"
					case <-time.After(5 * time.Second):
						obs["parked"] = "timeout"
					}
				} else {
					run.hs.VerifWaitIdle()
				}
				run.hs.Close() // clean shutdown returns
				snap := filepath.Join(root, fmt.Sprintf("exit%d", n))
				copyDir(run.home, snap) // the process exits here
				if rule != nil {
					close(rule.release)
					time.Sleep(20 * time.Millisecond)
				}
				cfgJSON, _ := json.Marshal(run.cfg)
				outb, err := exec.Command(self, "reopen", snap, string(cfgJSON), hx("a"), hx("b"), hx("c")).Output()
				var rr reopenRes
				if err != nil || json.Unmarshal(outb, &rr) != nil {
					obs["reopen"] = "REFUSE"
				} else {
					obs["reopen"] = rr.Status
					for _, k := range rr.Keys {
						kb, _ := hex.DecodeString(k.K)
						obs["get_"+string(kb)] = k.G
					}
				}
				os.RemoveAll(snap)
				os.RemoveAll(run.home)
				emit("close-vs-async-flush", variant, obs)
			}
		}

		// ---- S4: stress: concurrent clients with flusher / hint dumper and yield injection (C04) ----
		if which == "all" || which == "stress" {
			for rep := 0; rep < count; rep++ {
				rng := NewRng(seed*131 + uint64(rep))
				run := schedStore(root, n, []int64{1024, 4096, 1 << 20}[rng.Intn(3)], []int64{3, 8, 1 << 20}[rng.Intn(3)])
				if err := run.open(); err != nil {
					return err
				}
				nclients := 2 + rng.Intn(7)
				keys := []string{"k0", "k1", "k2"}[:1+rng.Intn(3)]
				pk.mu.Lock()
				pk.yield = int32(2 + rng.Intn(6))
				pk.mu.Unlock()
				var clock int64
				var hmu sync.Mutex
				var hist []histOp
				var wg sync.WaitGroup
				stop := make(chan struct{})
				flusherDone := make(chan struct{})
				go func() { // flusher + hint dumper
					defer close(flusherDone)
					for {
						select {
						case <-stop:
							return
						default:
						}
						run.hs.VerifFlush()
						run.hs.VerifHintDump()
						time.Sleep(300 * time.Microsecond)
					}
				}()
				for t := 0; t < nclients; t++ {
					wg.Add(1)
					go func(t int, sd uint64) {
						defer wg.Done()
						r := NewRng(sd)
						client := run.client
						for j := 0; j < 25; j++ {
							k := keys[r.Intn(len(keys))]
							h := histOp{T: t, K: k}
							h.Start = atomic.AddInt64(&clock, 1)
							switch p := r.Intn(10); {
							case p < 4:
								h.Op = "S"
								h.V = fmt.Sprintf("c%d-%d-%s", t, j, k)
								item := &mc.Item{Flag: 0, Exptime: 0, ReceiveTime: time.Unix(int64(1000+j), 0)}
								item.CArray.Alloc(len(h.V))
								copy(item.CArray.Body, h.V)
								cmem.DBRL.SetData.AddSizeAndCount(item.CArray.Cap)
								ok, err := client.Set(k, item, false)
								h.Res = fmt.Sprint(ok, err == nil)
							case p < 5:
								h.Op = "D"
								ok, err := client.Delete(k)
								h.Res = fmt.Sprint(ok, err == nil)
							case p < 8:
								h.Op = "G"
								it, err := client.Get(k)
								switch {
								case err != nil:
									h.Res = "ERR"
								case it == nil:
									h.Res = "MISS"
								default:
									h.Res = "HIT"
									h.Out = string(it.Body)
									cmem.DBRL.GetData.SubSizeAndCount(it.CArray.Cap)
									it.CArray.Free()
								}
							default:
								h.Op = "M"
								it, err := client.Get("?" + k)
								switch {
								case err != nil:
									h.Res = "ERR"
								case it == nil:
									h.Res = "MISS"
								default:
									h.Res = "META"
									h.Out = string(it.Body)
								}
							}
							h.End = atomic.AddInt64(&clock, 1)
							hmu.Lock()
							hist = append(hist, h)
							hmu.Unlock()
						}
					}(t, seed*977+uint64(rep*100+t))
				}
				wg.Wait()
				close(stop)
				<-flusherDone // the background flusher / dumper must be gone before the final reads and the shutdown
				pk.mu.Lock()
				pk.yield = 0
				pk.mu.Unlock()
				run.hs.VerifWaitIdle()
				final := map[string]string{}
				for _, k := range keys {
					final[k] = resOf(run.do("G", k, "")) + " | " + resOf(run.do("M", k, ""))
				}
				run.hs.Close()
				os.RemoveAll(run.home)
				out.Emit(schedResult{I: n, Scenario: "stress", Variant: fmt.Sprintf("clients=%d keys=%d", nclients, len(keys)), Hist: hist, Final: final})
				n++
			}
		}
		// ---- S5: split reads (C04): readers parked between position lookup and positional read while
		// other clients write, rotate files, flush and dump hints; the event trace is replayed on the model ----
		if which == "all" || which == "splitread" {
			for rep := 0; rep < count; rep++ {
				rng := NewRng(seed*733 + uint64(rep))
				run := schedStore(root, n, []int64{512, 1024, 4096}[rng.Intn(3)], []int64{3, 8, 1 << 20}[rng.Intn(3)])
				run.cfg.CheckVHash = rng.Chance(2)
				if err := run.open(); err != nil {
					return err
				}
				keys := []string{"k0", "k1", "k2", "k3"}[:2+rng.Intn(3)]
				nops := 12 + rng.Intn(30)
				type pend struct {
					rule *parkRule
					done chan l2op
				}
				pending := map[int]*pend{}
				var evs []schedEv
				nextc := 0
				tsn := uint32(1000)
				for j := 0; j < nops; j++ {
					p := rng.Intn(20)
					switch {
					case p < 4 && len(pending) < 3: // begin a read and park it after the lookup
						k := keys[rng.Intn(len(keys))]
						meta := rng.Chance(3)
						c := nextc
						nextc++
						rule := pk.arm("get.looked", 0)
						done := make(chan l2op, 1)
						op := "G"
						if meta {
							op = "M"
						}
						go func() {
							o := l2op{Op: op, K: hx(k)}
							run.exec(&o)
							done <- o
						}()
						select {
						case <-rule.arrived:
							pending[c] = &pend{rule, done}
							evs = append(evs, schedEv{Ev: "B", C: c, Op: l2op{Op: op, K: hx(k)}})
						case o := <-done: // a miss in the index never reaches the positional read
							pk.mu.Lock()
							delete(pk.rules, "get.looked")
							pk.mu.Unlock()
							evs = append(evs, schedEv{Ev: "B", C: c, Op: l2op{Op: op, K: hx(k)}})
							evs = append(evs, schedEv{Ev: "E", C: c, Op: o})
						case <-time.After(5 * time.Second):
							return fmt.Errorf("splitread: reader neither parked nor finished")
						}
					case p < 8 && len(pending) > 0: // finish one pending read
						var ids []int
						for c := range pending {
							ids = append(ids, c)
						}
						sort.Ints(ids)
						c := ids[rng.Intn(len(ids))]
						pe := pending[c]
						delete(pending, c)
						close(pe.rule.release)
						o := <-pe.done
						evs = append(evs, schedEv{Ev: "E", C: c, Op: o})
					default:
						var o l2op
						k := keys[rng.Intn(len(keys))]
						switch q := rng.Intn(12); {
						case q < 6:
							v := fmt.Sprintf("v%d-", j) + string(bytesRepeat('a'+byte(j%26), rng.Intn(220)))
							tsn++
							o = l2op{Op: "S", K: hx(k), V: hx(v), TS: tsn}
						case q < 8:
							o = l2op{Op: "D", K: hx(k)}
						case q < 9:
							o = l2op{Op: "G", K: hx(k)}
						case q < 10:
							o = l2op{Op: "M", K: hx(k)}
						case q < 11:
							o = l2op{Op: "F"}
						default:
							o = l2op{Op: "H"}
						}
						run.exec(&o)
						evs = append(evs, schedEv{Ev: "A", Op: o})
					}
				}
				var ids []int
				for c := range pending {
					ids = append(ids, c)
				}
				sort.Ints(ids)
				for _, c := range ids {
					pe := pending[c]
					close(pe.rule.release)
					o := <-pe.done
					evs = append(evs, schedEv{Ev: "E", C: c, Op: o})
				}
				for _, k := range keys {
					o := l2op{Op: "G", K: hx(k)}
					run.exec(&o)
					evs = append(evs, schedEv{Ev: "A", Op: o})
				}
				run.hs.VerifWaitIdle()
				run.hs.Close()
				os.RemoveAll(run.home)
				out.Emit(schedResult{I: n, Scenario: "splitread", Variant: fmt.Sprintf("keys=%d ops=%d", len(keys), nops), Cfg: &run.cfg, Evs: evs})
				n++
			}
		}
		// ---- S6: a random client write overtakes a GC pass right after the copy of the n-th relocated
		// record (C05); the whole history is replayed on the model with the split GC step ----
		if which == "all" || which == "gcintr" {
			for rep := 0; rep < count; rep++ {
				rng := NewRng(seed*911 + uint64(rep))
				run := schedStore(root, n, []int64{512, 1024}[rng.Intn(2)], []int64{3, 8, 1 << 20}[rng.Intn(3)])
				keys := []string{"k0", "k1", "k2", "k3", "k4", "k5", "k6", "k7", "k8"}[:4+rng.Intn(6)]
				collide := rng.Chance(4)
				if collide { // two keys share a key hash: they are served from the collision table once detected
					run.forced[keys[0]] = 0x0234567890abcdef
					run.forced[keys[1]] = 0x0234567890abcdef
					run.cfg.Forced = [][2]string{{hx(keys[0]), "158846962688052719"}, {hx(keys[1]), "158846962688052719"}}
				}
				if err := run.open(); err != nil {
					return err
				}
				tr := gcIntrTrace{Cfg: run.cfg}
				tsn := uint32(time.Now().Unix() - 40*86400)
				npre := 8 + rng.Intn(24)
				for j := 0; j < npre; j++ {
					k := keys[rng.Intn(len(keys))]
					var o l2op
					switch q := rng.Intn(10); {
					case q < 7:
						tsn++
						o = l2op{Op: "S", K: hx(k), V: hx(fmt.Sprintf("v%d-", j) + string(bytesRepeat('a'+byte(j%26), rng.Intn(300)))), TS: tsn}
					case q < 8:
						o = l2op{Op: "D", K: hx(k)}
					case q < 9:
						o = l2op{Op: "G", K: hx(k)}
					default:
						o = l2op{Op: "F"}
					}
					run.exec(&o)
					tr.Pre = append(tr.Pre, o)
				}
				o := l2op{Op: "F"}
				run.exec(&o)
				tr.Pre = append(tr.Pre, o)
				if collide {
					for _, k := range keys[:2] {
						o := l2op{Op: "G", K: hx(k)}
						run.exec(&o)
						tr.Pre = append(tr.Pre, o)
					}
				}
				head := run.hs.VerifHead(0)
				if head < 1 {
					run.hs.Close()
					os.RemoveAll(run.home)
					continue
				}
				if rng.Chance(2) {
					tr.A, tr.B = 0, head-1
				} else {
					tr.A = rng.Intn(head)
					tr.B = tr.A + rng.Intn(head-tr.A)
				}
				tr.Merge = rng.Chance(3)
				tr.Skip = rng.Intn(3)
				ck := keys[rng.Intn(len(keys))]
				if rng.Chance(3) {
					tr.Op = l2op{Op: "D", K: hx(ck)}
				} else {
					tsn++
					tr.Op = l2op{Op: "S", K: hx(ck), V: hx("during-gc-" + string(bytesRepeat('z', rng.Intn(200)))), TS: tsn}
				}
				rule := pk.arm("gc.appended", tr.Skip)
				done := make(chan l2op, 1)
				go func() {
					g := l2op{Op: "C", A: tr.A, B: tr.B, Merge: tr.Merge}
					run.exec(&g)
					done <- g
				}()
				select {
				case <-rule.arrived:
					tr.Parked = true
					cdone := make(chan struct{})
					go func() {
						run.exec(&tr.Op)
						close(cdone)
					}()
					select {
					case <-cdone:
					case <-time.After(2 * time.Second):
						return fmt.Errorf("gcintr: client blocked while GC is parked after a copy")
					}
					close(rule.release)
					tr.GC = <-done
				case g := <-done: // fewer relocations than the skip count: the client runs after the pass
					pk.mu.Lock()
					delete(pk.rules, "gc.appended")
					pk.mu.Unlock()
					tr.GC = g
					run.exec(&tr.Op)
				case <-time.After(20 * time.Second):
					return fmt.Errorf("gcintr: GC neither parked nor finished")
				}
				tr.GC.Dir = nil
				for _, k := range keys {
					for _, op := range []string{"G", "M"} {
						o := l2op{Op: op, K: hx(k)}
						run.exec(&o)
						tr.Post = append(tr.Post, o)
					}
				}
				o = l2op{Op: "R"}
				run.exec(&o)
				tr.Post = append(tr.Post, o)
				if o.Res == "OK" {
					for _, k := range keys {
						o := l2op{Op: "G", K: hx(k)}
						run.exec(&o)
						tr.Post = append(tr.Post, o)
					}
					run.hs.VerifWaitIdle()
					run.hs.Close()
				}
				os.RemoveAll(run.home)
				out.Emit(schedResult{I: n, Scenario: "gcintr", Variant: fmt.Sprintf("keys=%d pre=%d range=%d-%d skip=%d collide=%v", len(keys), npre, tr.A, tr.B, tr.Skip, collide), GI: &tr})
				n++
			}
		}
		store.VerifSetPointFn(nil)
		return nil
	}
}
