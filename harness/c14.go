package main

import (
	"encoding/hex"
	"fmt"
	"io/ioutil"
	"os"
	"path/filepath"
	"sort"

	"github.com/douban/gobeansdb/store"
)

type jhint struct {
	H   uint64 `json:"h"`
	Ck  int    `json:"ck"`
	Off uint32 `json:"off"`
	Ver int32  `json:"ver"`
	Vh  uint16 `json:"vh"`
	K   string `json:"k"` // hex
}

func toJ(v store.VerifHintItem) jhint {
	return jhint{v.Keyhash, v.Chunk, v.Offset, v.Ver, v.Vhash, hex.EncodeToString([]byte(v.Key))}
}
func fromJ(j jhint) store.VerifHintItem {
	k, _ := hex.DecodeString(j.K)
	return store.VerifHintItem{Keyhash: j.H, Chunk: j.Ck, Offset: j.Off, Ver: j.Ver, Vhash: j.Vh, Key: string(k)}
}

type jquery struct {
	Src  int    `json:"src"`
	H    uint64 `json:"h"`
	K    string `json:"k"`
	Kind string `json:"kind"`
	Res  string `json:"res"` // found | nf | err
	It   *jhint `json:"it,omitempty"`
}

type jsrc struct {
	Chunk    int     `json:"chunk"`
	Sets     []jhint `json:"sets"`     // Set sequence fed to the HintBuffer
	DataSize uint32  `json:"datasize"` // resulting maxoffset
	FileLen  int     `json:"filelen"`
	FileCrc  uint32  `json:"filecrc"`
	FileHex  string  `json:"filehex,omitempty"`
	Read     []jhint `json:"read"`
	ReadErr  bool    `json:"readerr"`
	ReadDS   uint32  `json:"readds"`
	NumKey   int     `json:"numkey"`
	NIndex   int     `json:"nindex"`
}

type c14Case struct {
	I        int      `json:"i"`
	Interval int64    `json:"interval"`
	RecSize  uint32   `json:"recsize"`
	Srcs     []jsrc   `json:"srcs"`
	Queries  []jquery `json:"queries"`
	Merged   []jhint  `json:"merged"`
	MergedDS uint32   `json:"mergedds"`
	MergeErr bool     `json:"mergeerr"`
	Coll     []jhint  `json:"coll"`
}

func sortJ(l []jhint) {
	sort.Slice(l, func(a, b int) bool {
		if l[a].H != l[b].H {
			return l[a].H < l[b].H
		}
		return l[a].K < l[b].K
	})
}

func init() {
	suites["c14"] = func(seed uint64, count int, out *Out, args []string) error {
		r := NewRng(seed)
		dir, err := ioutil.TempDir("", "verif-c14-")
		if err != nil {
			return err
		}
		defer os.RemoveAll(dir)
		big := len(args) > 0 && args[0] == "big"
		store.Conf.NoMerged = false
		for i := 0; i < count; i++ {
			c := c14Case{I: i}
			c.Interval = []int64{24, 200, 280, 300, 400, 512, 1024, 4096}[r.Intn(8)]
			store.Conf.IndexIntervalSize = c.Interval
			c.RecSize = 256
			// key pool: hashes incl. 0 and 2^64-1, same-hash groups
			npool := 2 + r.Intn(40)
			if r.Chance(20) {
				npool = 100 + r.Intn(200)
			}
			if big && r.Chance(3) {
				npool = 600 + r.Intn(900)
			}
			store.Conf.SplitCap = int64(npool + 8)
			type pk struct {
				h uint64
				k string
			}
			var pool []pk
			hashes := []uint64{}
			for len(pool) < npool {
				var h uint64
				switch r.Intn(12) {
				case 0:
					h = 0
				case 1:
					h = ^uint64(0)
				case 2, 3:
					if len(hashes) > 0 {
						h = hashes[r.Intn(len(hashes))] // same-hash group
					} else {
						h = r.U64()
					}
				case 4:
					h = r.U64() & 0xff // small hashes cluster
				default:
					h = r.U64()
				}
				hashes = append(hashes, h)
				klen := 1 + r.Intn(30)
				if r.Chance(5) {
					klen = 200 + r.Intn(51)
				}
				k := make([]byte, klen)
				for j := range k {
					k[j] = byte(0x21 + r.Intn(94))
					if r.Chance(5) {
						k[j] = byte(0x80 + r.Intn(128))
					}
				}
				pool = append(pool, pk{h, string(k)})
			}
			nsrc := 1 + r.Intn(4)
			if big {
				nsrc = 1 + r.Intn(8)
			}
			var paths []string
			var chunks []int
			for s := 0; s < nsrc; s++ {
				js := jsrc{Chunk: r.Intn(3) + s}
				nset := 1 + r.Intn(len(pool)*3/2+1)
				var sets []store.VerifHintItem
				off := uint32(s) << 22 // splits of one chunk never share offsets
				for n := 0; n < nset; n++ {
					p := pool[r.Intn(len(pool))]
					ver := int32(1 + r.Intn(5))
					if r.Chance(15) {
						ver = -ver
					}
					it := store.VerifHintItem{Keyhash: p.h, Chunk: 0, Offset: off, Ver: ver, Vhash: uint16(r.U64()), Key: p.k}
					off += 256 * uint32(1+r.Intn(3))
					sets = append(sets, it)
					js.Sets = append(js.Sets, toJ(it))
				}
				path := filepath.Join(dir, fmt.Sprintf("%03d.%03d.idx.s", js.Chunk, s))
				os.Remove(path)
				if _, err := store.VerifHintBufferDump(path, sets, c.RecSize); err != nil {
					return err
				}
				data, _ := ioutil.ReadFile(path)
				js.FileLen = len(data)
				js.FileCrc = store.VerifCrc32(data)
				if len(data) <= 2048 {
					js.FileHex = hex.EncodeToString(data)
				}
				items, ds, nk, err := store.VerifHintReadAll(path, js.Chunk)
				js.ReadErr = err != nil
				js.ReadDS, js.NumKey = ds, nk
				js.Read = []jhint{}
				for _, it := range items {
					js.Read = append(js.Read, toJ(it))
				}
				js.NIndex, _ = store.VerifHintIndexLen(path)
				js.DataSize = ds
				c.Srcs = append(c.Srcs, js)
				paths = append(paths, path)
				chunks = append(chunks, js.Chunk)
				// queries: every present key (capped) + absent ones
				nq := 0
				for _, it := range items {
					if nq >= 40 && !r.Chance(10) {
						continue
					}
					nq++
					c.Queries = append(c.Queries, jquery{Src: s, H: it.Keyhash, K: hex.EncodeToString([]byte(it.Key)), Kind: "present"})
				}
				var maxh, minh uint64 = 0, ^uint64(0)
				for _, it := range items {
					if it.Keyhash > maxh {
						maxh = it.Keyhash
					}
					if it.Keyhash < minh {
						minh = it.Keyhash
					}
				}
				absent := func(h uint64, k string, kind string) {
					c.Queries = append(c.Queries, jquery{Src: s, H: h, K: hex.EncodeToString([]byte(k)), Kind: kind})
				}
				absent(^uint64(0), "zz-absent-top", "absent-max")
				absent(0, "zz-absent-zero", "absent-zero")
				if maxh < ^uint64(0) {
					absent(maxh+1, "zz-absent-above", "absent-above")
				}
				if minh > 0 {
					absent(minh-1, "zz-absent-below", "absent-below")
				}
				for q := 0; q < 6 && len(items) > 0; q++ {
					it := items[r.Intn(len(items))]
					absent(it.Keyhash, "zz-other-key", "absent-samehash")
					absent(it.Keyhash, "", "absent-samehash-emptykey")
					absent(it.Keyhash+1, it.Key, "absent-between")
					absent(r.U64(), "zz-random", "absent-random")
				}
			}
			for qi := range c.Queries {
				q := &c.Queries[qi]
				k, _ := hex.DecodeString(q.K)
				it, err := store.VerifHintGet(paths[q.Src], q.H, string(k))
				switch {
				case err != nil:
					q.Res = "err"
				case it == nil:
					q.Res = "nf"
				default:
					q.Res = "found"
					j := toJ(*it)
					q.It = &j
				}
			}
			// merge
			dst := filepath.Join(dir, "merged.idx.m")
			os.Remove(dst)
			coll, err := store.VerifHintMerge(paths, chunks, dst, false)
			c.MergeErr = err != nil
			c.Coll = []jhint{}
			for _, it := range coll {
				c.Coll = append(c.Coll, toJ(it))
			}
			sortJ(c.Coll)
			c.Merged = []jhint{}
			if err == nil {
				items, ds, _, _ := store.VerifHintReadAll(dst, 0)
				for _, it := range items {
					c.Merged = append(c.Merged, toJ(it))
				}
				c.MergedDS = ds
			}
			out.Emit(c)
		}
		return nil
	}
}

func init() {
	// c14f1: finding F1 (fixed): 400-item file, interval 1KB, absent key with hash 2^64-1
	suites["c14f1"] = func(seed uint64, count int, out *Out, args []string) error {
		dir, err := ioutil.TempDir("", "verif-c14f1-")
		if err != nil {
			return err
		}
		defer os.RemoveAll(dir)
		store.Conf.IndexIntervalSize = 1024
		store.Conf.SplitCap = 1000
		var sets []store.VerifHintItem
		for i := 0; i < 400; i++ {
			sets = append(sets, store.VerifHintItem{Keyhash: uint64(i+1) << 40, Offset: uint32(i) * 256, Ver: 1, Vhash: 7, Key: fmt.Sprintf("key-%04d", i)})
		}
		path := filepath.Join(dir, "000.000.idx.s")
		if _, err := store.VerifHintBufferDump(path, sets, 256); err != nil {
			return err
		}
		n, _ := store.VerifHintIndexLen(path)
		it, err := store.VerifHintGet(path, ^uint64(0), "absent")
		res := "nf"
		if err != nil {
			res = "err"
		} else if it != nil {
			res = "found"
		}
		fmt.Printf("F1 index=%d res=%s\n", n, res)
		return nil
	}
}
