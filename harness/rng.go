package main

// Deterministic PRNG (splitmix64): every random choice of a suite derives from
// one state so that a disagreement replays exactly from (suite, seed, index).
type Rng struct{ s uint64 }

func NewRng(seed uint64) *Rng { return &Rng{seed*0x9E3779B97F4A7C15 + 0x1234567} }

func (r *Rng) U64() uint64 {
	r.s += 0x9E3779B97F4A7C15
	z := r.s
	z = (z ^ (z >> 30)) * 0xBF58476D1CE4E5B9
	z = (z ^ (z >> 27)) * 0x94D049BB133111EB
	return z ^ (z >> 31)
}
func (r *Rng) Intn(n int) int {
	if n <= 0 {
		return 0
	}
	return int(r.U64() % uint64(n))
}
func (r *Rng) Bool() bool       { return r.U64()&1 == 1 }
func (r *Rng) Chance(p int) bool { return r.Intn(100) < p }
func (r *Rng) Bytes(n int) []byte {
	b := make([]byte, n)
	for i := range b {
		b[i] = byte(r.U64())
	}
	return b
}
func (r *Rng) Pick(xs []int) int { return xs[r.Intn(len(xs))] }

// lcgBytes mirrors Words.lcg_bytes in the Coq model (large inputs are sent as (seed,len)).
func lcgBytes(n int, x uint64) []byte {
	b := make([]byte, n)
	for i := 0; i < n; i++ {
		x = (x*1103515245 + 12345) & 0x7fffffff
		b[i] = byte(x >> 16)
	}
	return b
}

func hexDecode(s string) ([]byte, error) {
	b := make([]byte, len(s)/2)
	for i := range b {
		var x int
		for j := 0; j < 2; j++ {
			c := s[2*i+j]
			x <<= 4
			switch {
			case c >= '0' && c <= '9':
				x |= int(c - '0')
			case c >= 'a' && c <= 'f':
				x |= int(c-'a') + 10
			case c >= 'A' && c <= 'F':
				x |= int(c-'A') + 10
			}
		}
		b[i] = byte(x)
	}
	return b, nil
}
