package main

import (
	"encoding/hex"

	"github.com/douban/gobeansdb/store"
	"github.com/douban/gobeansdb/utils"
)

type c16Case struct {
	I     int    `json:"i"`
	Class string `json:"class"`
	Hex   string `json:"hex,omitempty"` // input bytes, or
	Gen   uint64 `json:"gen,omitempty"` // lcg seed (then Len bytes)
	Len   int    `json:"len"`
	Fnv   uint32 `json:"fnv"`
	Ufnv  uint32 `json:"ufnv"`
	Mur   uint32 `json:"mur"`
	Kh    uint64 `json:"kh"`
	Vh    uint16 `json:"vh"`
	Crc   uint32 `json:"crc"`
	Crc3  uint32 `json:"crc3"` // CRC fed in three parts as getCRC does
}

func c16Input(r *Rng, i int, big bool) (class string, b []byte, gen uint64) {
	edge := []int{0, 1, 2, 3, 4, 5, 7, 8, 15, 16, 17, 255, 256, 257, 511, 512, 513, 1023, 1024, 1025, 1026, 1535, 2048, 4095, 4096}
	var n int
	switch r.Intn(4) {
	case 0:
		n = edge[r.Intn(len(edge))]
	case 1:
		n = r.Intn(40)
	case 2:
		n = r.Intn(1100)
	default:
		n = r.Intn(4097)
	}
	if big && i%10 == 0 {
		n = 100000 + r.Intn(950000)
		gen = r.U64()&0x7fffffff | 1
		return "lcg-big", lcgBytes(n, gen), gen
	}
	switch r.Intn(6) {
	case 0:
		b = make([]byte, n)
		for j := range b {
			b[j] = byte(0x80 + r.Intn(128))
		}
		return "high-bit", b, 0
	case 1:
		b = make([]byte, n)
		for j := range b {
			b[j] = byte(0x20 + r.Intn(95))
		}
		return "ascii", b, 0
	case 2:
		s := []rune{}
		for len(string(s)) < n {
			s = append(s, rune(0x80+r.Intn(0x2000)))
		}
		b = []byte(string(s))
		if len(b) > n {
			b = b[:n]
		}
		return "utf8", b, 0
	case 3:
		b = make([]byte, n)
		c := byte(r.U64())
		for j := range b {
			b[j] = c
		}
		return "constant", b, 0
	default:
		return "random", r.Bytes(n), 0
	}
}

func init() {
	suites["c16"] = func(seed uint64, count int, out *Out, args []string) error {
		r := NewRng(seed)
		big := len(args) > 0 && args[0] == "big"
		for i := 0; i < count; i++ {
			class, b, gen := c16Input(r, i, big)
			c := c16Case{I: i, Class: class, Len: len(b), Gen: gen}
			if gen == 0 {
				c.Hex = hex.EncodeToString(b)
			}
			c.Fnv = store.VerifFnv1a(b)
			c.Ufnv = utils.Fnv1a(b)
			c.Mur = store.VerifMurmur(b)
			c.Kh = store.VerifKeyHashDefault(b)
			c.Vh = store.Getvhash(b)
			c.Crc = store.VerifCrc32(b)
			k := len(b) / 3
			c.Crc3 = store.VerifCrc32(b[:k], b[k:2*k], b[2*k:])
			out.Emit(c)
		}
		return nil
	}
}

func init() {
	// c16one <hex>: one explicit input (replay)
	suites["c16one"] = func(seed uint64, count int, out *Out, args []string) error {
		b, err := hex.DecodeString(args[0])
		if err != nil {
			return err
		}
		c := c16Case{I: 0, Class: "replay", Len: len(b), Hex: args[0]}
		c.Fnv = store.VerifFnv1a(b)
		c.Ufnv = utils.Fnv1a(b)
		c.Mur = store.VerifMurmur(b)
		c.Kh = store.VerifKeyHashDefault(b)
		c.Vh = store.Getvhash(b)
		c.Crc = store.VerifCrc32(b)
		k := len(b) / 3
		c.Crc3 = store.VerifCrc32(b[:k], b[k:2*k], b[2*k:])
		out.Emit(c)
		return nil
	}
}
