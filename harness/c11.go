package main

import (
	"bytes"
	"encoding/hex"
	"fmt"
	"io"
	"io/ioutil"
	"os"
	"path/filepath"
	"strings"
	"sync/atomic"

	"github.com/douban/gobeansdb/cmem"
	"github.com/douban/gobeansdb/config"
	"github.com/douban/gobeansdb/gobeansdb"
	"github.com/douban/gobeansdb/loghub"
	mc "github.com/douban/gobeansdb/memcache"
	"github.com/douban/gobeansdb/store"
)

type memConn struct {
	r *bytes.Reader
	w bytes.Buffer
}

func (m *memConn) Read(p []byte) (int, error)  { return m.r.Read(p) }
func (m *memConn) Write(p []byte) (int, error) { return m.w.Write(p) }
func (m *memConn) Close() error                { return nil }

var _ io.ReadWriteCloser = (*memConn)(nil)

type c11cmd struct {
	Raw    string `json:"raw"`    // hex of the bytes sent for this command
	Expect string `json:"expect"` // reply kind the grammar promises: line | values | num | none | close | any
	Kind   string `json:"kind"`
	Reply  string `json:"reply"`
	Ran    bool   `json:"ran"`
}

type c11conn struct {
	Stream string   `json:"stream"`
	Out    string   `json:"out"`
	Cmds   []c11cmd `json:"cmds"`
	Mut    string   `json:"mut"` // "" for grammatical streams, else the mutation applied
}

type c11Case struct {
	I       int       `json:"i"`
	MaxKey  int       `json:"maxkey"`
	BodyMax int64     `json:"bodymax"`
	Conns   []c11conn `json:"conns"`
	Acct    [9]int64  `json:"acct"` // set c,s ; get c,s ; flush c,s ; alloc c,s ; tokens out
}

func init() {
	suites["c11"] = func(seed uint64, count int, out *Out, args []string) error {
		loghub.ErrorLogger.SetLevel(loghub.FATAL + 1)
		r := NewRng(seed)
		root, err := ioutil.TempDir("", "verif-c11-")
		if err != nil {
			return err
		}
		defer os.RemoveAll(root)
		store.VerifSetPointFn(func(name string) {
			if name == "open.bgcheck.done" {
				atomic.AddInt64(&openDone, 1)
			}
		})
		for i := 0; i < count; i++ {
			c := c11Case{I: i, MaxKey: 250}
			c.BodyMax = []int64{50 << 20, 8192, 1000}[r.Intn(3)]
			home := filepath.Join(root, fmt.Sprintf("c%d", i))
			os.MkdirAll(home, 0755)
			store.Conf.InitDefault()
			store.Conf.Home = home
			store.Conf.NumBucket = 1
			store.Conf.BucketsStat = []int{1}
			store.Conf.TreeHeight = 3
			store.Conf.Init()
			store.Conf.FlushInterval = 1000000
			store.Conf.FlushWake = 1 << 40
			store.SecsBeforeDump = -1
			config.MCConf.BodyMax = c.BodyMax
			config.MCConf.MaxKeyLen = 250
			config.MCConf.BodyInC = 4096
			config.MCConf.BodyBig = 1 << 20
			config.MCConf.FlushMax = 100 << 20
			config.MCConf.MaxReq = 16
			config.MCConf.TimeoutMS = 600000
			store.VerifSetKeyHash(nil)
			atomic.StoreInt64(&openDone, 0)
			hs, err := store.NewHStore()
			if err != nil {
				return err
			}
			hs.VerifWaitOpen(func() int { return int(atomic.LoadInt64(&openDone)) })
			mc.InitTokens()
			stats := mc.NewStats()
			storage := gobeansdb.VerifNewStorage(hs)
			g := newC11Gen(r, c.BodyMax)
			nconn := 1 + r.Intn(3)
			for n := 0; n < nconn; n++ {
				cn := g.conn()
				raw, _ := hex.DecodeString(cn.Stream)
				m := &memConn{r: bytes.NewReader(raw)}
				sc := mc.VerifNewServerConn(m)
				if cn.Mut == "" {
					// grammatical stream: feed one command at a time so that every reply is attributed exactly
					client := storage.Client()
					for ci := range cn.Cmds {
						if sc.VerifShouldClose() {
							break
						}
						one, _ := hex.DecodeString(cn.Cmds[ci].Raw)
						m.r = bytes.NewReader(one)
						before := m.w.Len()
						sc.ServeOnce(client, stats)
						cn.Cmds[ci].Reply = hex.EncodeToString(m.w.Bytes()[before:])
						cn.Cmds[ci].Ran = true
					}
				} else {
					sc.Serve(storage.Client(), stats)
				}
				cn.Out = hex.EncodeToString(m.w.Bytes())
				c.Conns = append(c.Conns, cn)
			}
			hs.VerifFlush()
			hs.VerifWaitIdle()
			d := &cmem.DBRL
			c.Acct = [9]int64{d.SetData.Count, d.SetData.Size, d.GetData.Count, d.GetData.Size, d.FlushData.Count, d.FlushData.Size,
				cmem.AllocRL.Count, cmem.AllocRL.Size, int64(config.MCConf.MaxReq - mc.VerifTokensFree())}
			hs.Close()
			os.RemoveAll(home)
			out.Emit(c)
		}
		return nil
	}
}

// ---- stream generator ----
type c11gen struct {
	r       *Rng
	keys    []string
	bodymax int64
}

func newC11Gen(r *Rng, bodymax int64) *c11gen {
	g := &c11gen{r: r, bodymax: bodymax}
	n := 3 + r.Intn(4)
	for len(g.keys) < n {
		g.keys = append(g.keys, string(validKeyInBucket(r, 1, 0, nil)))
	}
	return g
}

func (g *c11gen) key() string { return g.keys[g.r.Intn(len(g.keys))] }

func (g *c11gen) value() []byte {
	r := g.r
	switch r.Intn(8) {
	case 0:
		return []byte{}
	case 1:
		return []byte("a\r\nb\x00c\r\n")
	case 2:
		return []byte(fmt.Sprintf("%d", r.Intn(100000)-500))
	case 3:
		n := 4097 + r.Intn(3000)
		if int64(n) > g.bodymax {
			n = int(g.bodymax)
		}
		return r.Bytes(n)
	case 4:
		return []byte("END\r\nSTORED\r\nVALUE x 0 1\r\n")
	default:
		return r.Bytes(1 + r.Intn(60))
	}
}

func (g *c11gen) command() (raw []byte, expect, kind string) {
	r := g.r
	nr := ""
	noreply := r.Chance(12)
	if noreply {
		nr = " noreply"
	}
	exp := func(e string) string {
		if noreply {
			return "none"
		}
		return e
	}
	switch p := r.Intn(100); {
	case p < 26:
		verb := []string{"set", "set", "set", "add", "replace", "cas"}[r.Intn(6)]
		v := g.value()
		flag := []int{0, 1, 16, 516, 65519, 12345}[r.Intn(6)]
		rev := 0
		if r.Chance(15) {
			rev = r.Intn(9)
		}
		if verb == "cas" {
			return []byte(fmt.Sprintf("cas %s %d %d %d %d%s\r\n%s\r\n", g.key(), flag, rev, len(v), r.Intn(99), nr, v)), exp("line"), "set"
		}
		return []byte(fmt.Sprintf("%s %s %d %d %d%s\r\n%s\r\n", verb, g.key(), flag, rev, len(v), nr, v)), exp("line"), "set"
	case p < 48:
		n := 1 + r.Intn(3)
		used := map[string]bool{}
		ks := []string{}
		for len(ks) < n {
			k := g.key()
			if r.Chance(15) {
				k = "absent" + fmt.Sprint(r.Intn(5))
			}
			if !used[k] {
				used[k] = true
				ks = append(ks, k)
			}
		}
		verb := "get"
		if r.Chance(20) {
			verb = "gets"
		}
		// a repeated key in a multi-get (finding F23); chosen from the content so that the random stream is not disturbed
		kind := "get"
		if len(ks) >= 2 && (len(ks[0])+len(ks[1]))%3 == 0 {
			ks = append(ks, ks[0])
			kind = "get-dup"
		}
		return []byte(verb + " " + strings.Join(ks, " ") + "\r\n"), "values", kind
	case p < 55:
		extra := ""
		if r.Chance(30) {
			extra = " 0"
		}
		return []byte("delete " + g.key() + extra + nr + "\r\n"), exp("line"), "delete"
	case p < 62:
		return []byte(fmt.Sprintf("incr %s %d%s\r\n", g.key(), r.Intn(50)-10, nr)), exp("num"), "incr"
	case p < 66:
		k := g.key()
		q := "?"
		if r.Bool() {
			q = "??"
		}
		return []byte("get " + q + k + "\r\n"), "values", "meta"
	case p < 71:
		path := ""
		for e := r.Intn(5); e > 0; e-- {
			path += fmt.Sprintf("%x", r.Intn(16))
		}
		return []byte("get @" + path + "\r\n"), "values", "dir"
	case p < 73:
		return []byte([]string{"stats\r\n", "stats cmd_get curr_items\r\n"}[r.Intn(2)]), "stats", "stats"
	case p < 76:
		return []byte([]string{"version\r\n", "verbosity 1\r\n", "flush_all\r\n", "verbosity\r\n"}[r.Intn(4)]), "line", "misc"
	case p < 78:
		return []byte([]string{"foo bar\r\n", "optimize_stat\r\n", "GET x\r\n"}[r.Intn(3)]), "line", "unknown"
	case p < 80:
		return []byte("get @collision_" + []string{"x", "all_x"}[r.Intn(2)] + "\r\n"), "values", "collision"
	// ---- inputs with a specific trap ----
	case p < 82: // over-long directory path (finding F5)
		return []byte("get @" + strings.Repeat("a", 17+r.Intn(3)) + "\r\n"), "values", "dir17"
	case p < 83:
		return []byte("get @@" + []string{"zzzzzzzzzzzzzzzz", "short", "0123456789abcdef0"}[r.Intn(3)] + "\r\n"), "values|line", "dirdump"
	case p < 85: // negative revision (finding F6)
		v := g.value()
		return []byte(fmt.Sprintf("set %s 0 -%d %d\r\n%s\r\n", g.key(), 1+r.Intn(5), len(v), v)), "line", "negrev"
	case p < 87:
		return []byte("incr " + g.key() + " xx\r\n"), "line", "incr-nan"
	case p < 88:
		return []byte("incr @n 1\r\n"), "num", "incr-badkey"
	case p < 90:
		v := g.value()
		verb := []string{"append", "prepend"}[r.Intn(2)]
		e := "line"
		if verb == "prepend" {
			e = "close"
		}
		return []byte(fmt.Sprintf("%s %s 0 0 %d\r\n%s\r\n", verb, g.key(), len(v), v)), e, verb
	case p < 91:
		return []byte("decr " + g.key() + " 1\r\n"), "close", "decr"
	case p < 93: // invalid key for set
		v := g.value()
		k := []string{"a\tb", "@x", "?y", strings.Repeat("k", 251), "k\x7fz", "k\xc2\x85z", "k\xc2\xa0"}[r.Intn(7)]
		return []byte(fmt.Sprintf("set %s 0 0 %d\r\n%s\r\n", k, len(v), v)), "line", "set-badkey"
	case p < 95:
		return []byte("get " + strings.Repeat("k", 251+r.Intn(100)) + "\r\n"), "line", "get-longkey"
	case p < 96:
		return []byte("get ?\r\n"), "line", "meta-bare"
	case p < 97:
		return []byte("quit\r\n"), "close", "quit"
	default:
		return []byte("delete " + g.key() + " noreply\r\n"), "none", "delete"
	}
}

func (g *c11gen) conn() c11conn {
	r := g.r
	var cn c11conn
	var stream []byte
	n := 4 + r.Intn(14)
	for j := 0; j < n; j++ {
		raw, e, k := g.command()
		cn.Cmds = append(cn.Cmds, c11cmd{Raw: hex.EncodeToString(raw), Expect: e, Kind: k})
		stream = append(stream, raw...)
	}
	if r.Chance(40) { // malformed stream
		switch r.Intn(11) {
		case 0:
			cut := r.Intn(len(stream) + 1)
			stream = stream[:cut]
			cn.Mut = "truncate"
		case 1:
			p := r.Intn(len(stream))
			stream[p] = byte(r.U64())
			cn.Mut = "flipbyte"
		case 2:
			stream = append([]byte("set k 0 0 notanumber\r\nabc\r\n"), stream...)
			cn.Mut = "nan-length"
		case 3:
			stream = append([]byte("set k 0 0 -5\r\nabc\r\n"), stream...)
			cn.Mut = "neg-length"
		case 4:
			stream = append([]byte(fmt.Sprintf("set k 0 0 %d\r\nabc\r\n", g.bodymax+1)), stream...)
			cn.Mut = "too-large"
		case 5:
			stream = append([]byte("set k 0 0 3\r\nabcXY"), stream...)
			cn.Mut = "bad-terminator"
		case 6:
			stream = append([]byte("get a\n\r\n  \r\nset k 0 0\r\nset k x 0 1\r\na\r\nset k 0 0 1 noreplyy\r\na\r\n"), stream...)
			cn.Mut = "bad-lines"
		case 7:
			stream = append([]byte("set k 99999999999999999999 0 1\r\na\r\ncas k 0 0\r\ndelete\r\nincr k\r\n"), stream...)
			cn.Mut = "bad-numbers"
		case 8:
			stream = append(stream, []byte("set k 0 0 10\r\nabc")...)
			cn.Mut = "short-body"
		case 9: // a value large enough to live in a C-allocated buffer, followed by a wrong terminator
			n := 4097 + r.Intn(2000)
			if int64(n) > g.bodymax {
				n = int(g.bodymax)
			}
			big := append([]byte(fmt.Sprintf("set k 0 0 %d\r\n", n)), r.Bytes(n)...)
			stream = append(append(big, 'X', 'Y'), stream...)
			cn.Mut = "bad-terminator-big"
		case 10:
			n := 4097 + r.Intn(2000)
			if int64(n) > g.bodymax {
				n = int(g.bodymax)
			}
			stream = append(stream, append([]byte(fmt.Sprintf("set k 0 0 %d\r\n", n)), r.Bytes(n/2)...)...)
			cn.Mut = "short-body-big"
		}
	}
	cn.Stream = hex.EncodeToString(stream)
	return cn
}
