// verifharness: runs the implementation (built from /repo's working tree with
// -tags verif) on seeded cases and writes one JSON object per case with the
// inputs and the canonicalised observables. The Python driver turns these into
// Coq case files evaluated by the model and the spec.
package main

import (
	"bufio"
	"encoding/json"
	"flag"
	"fmt"
	"os"
)

type Out struct {
	w *bufio.Writer
	f *os.File
	n int
}

func (o *Out) Emit(v interface{}) {
	b, err := json.Marshal(v)
	if err != nil {
		panic(err)
	}
	o.w.Write(b)
	o.w.WriteByte('\n')
	o.n++
}

type suiteFn func(seed uint64, count int, out *Out, args []string) error

var suites = map[string]suiteFn{}

func main() {
	if len(os.Args) < 2 {
		fmt.Fprintln(os.Stderr, "usage: verifharness <suite> [-seed N] [-count M] [-out file] [args...]")
		os.Exit(2)
	}
	name := os.Args[1]
	fs := flag.NewFlagSet(name, flag.ExitOnError)
	seed := fs.Uint64("seed", 1, "seed")
	count := fs.Int("count", 100, "number of cases")
	outp := fs.String("out", "-", "output file")
	fs.Parse(os.Args[2:])
	fn, ok := suites[name]
	if !ok {
		fmt.Fprintln(os.Stderr, "unknown suite", name)
		os.Exit(2)
	}
	var f *os.File
	if *outp == "-" {
		f = os.Stdout
	} else {
		var err error
		f, err = os.Create(*outp)
		if err != nil {
			fmt.Fprintln(os.Stderr, err)
			os.Exit(2)
		}
	}
	out := &Out{w: bufio.NewWriterSize(f, 1<<20), f: f}
	err := fn(*seed, *count, out, fs.Args())
	out.w.Flush()
	f.Close()
	if err != nil {
		fmt.Fprintln(os.Stderr, "suite error:", err)
		os.Exit(3)
	}
}
