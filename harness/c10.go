package main

import (
	"encoding/hex"
	"strings"

	"github.com/douban/gobeansdb/quicklz"
	"github.com/douban/gobeansdb/store"
)

type c10Case struct {
	I      int    `json:"i"`
	Kind   string `json:"kind"`
	Src    string `json:"src"`            // bytes fed to the safe decompressors
	Plain  string `json:"plain,omitempty"` // original, when the input was produced by a compressor
	COk    bool   `json:"cok"`
	COut   string `json:"cout,omitempty"`
	CLen   int    `json:"clen"`
	CCrc   uint32 `json:"ccrc"`
	GoOk   bool   `json:"gook"`
	GoLen  int    `json:"golen"`
	GoCrc  uint32 `json:"gocrc"`
	SrcLen int    `json:"srclen"`
}

func c10Plain(r *Rng, big bool) []byte {
	n := 1 + r.Intn(600)
	if r.Chance(25) {
		n = 600 + r.Intn(3000)
	}
	if big && r.Chance(10) {
		n = 100000 + r.Intn(900000)
	}
	b := make([]byte, n)
	switch r.Intn(6) {
	case 0:
		c := byte(r.U64())
		for i := range b {
			b[i] = c
		}
	case 1:
		pat := r.Bytes(1 + r.Intn(9))
		for i := range b {
			b[i] = pat[i%len(pat)]
		}
	case 2:
		copy(b, []byte(strings.Repeat("the quick brown fox jumps over the lazy dog ", n/40+1)))
	case 3:
		copy(b, r.Bytes(n))
	case 4: // compressible head, incompressible tail
		h := n / 2
		for i := 0; i < h; i++ {
			b[i] = byte(i % 7)
		}
		copy(b[h:], r.Bytes(n-h))
	default: // sparse noise over a pattern
		for i := range b {
			b[i] = byte(i % 13)
			if r.Chance(5) {
				b[i] = byte(r.U64())
			}
		}
	}
	return b
}

func init() {
	suites["c10"] = func(seed uint64, count int, out *Out, args []string) error {
		r := NewRng(seed)
		big := len(args) > 0 && args[0] == "big"
		for i := 0; i < count; i++ {
			c := c10Case{I: i}
			var src []byte
			switch p := r.Intn(100); {
			case p < 30: // C compressor output
				plain := c10Plain(r, big)
				arr, ok := quicklz.CCompress(plain)
				if !ok {
					continue
				}
				src = append([]byte{}, arr.Body...)
				arr.Free()
				c.Kind = "c-compressed"
				c.Plain = hex.EncodeToString(plain)
			case p < 45: // Go compressor output, level 3
				plain := c10Plain(r, big)
				src = quicklz.Compress(plain, 3)
				c.Kind = "go-compressed"
				c.Plain = hex.EncodeToString(plain)
			case p < 75: // mutated valid stream
				plain := c10Plain(r, false)
				arr, _ := quicklz.CCompress(plain)
				src = append([]byte{}, arr.Body...)
				arr.Free()
				c.Kind = "mutated"
				for m := 1 + r.Intn(3); m > 0; m-- {
					switch r.Intn(5) {
					case 0:
						src[r.Intn(len(src))] ^= 1 << uint(r.Intn(8))
					case 1:
						if len(src) > 10 {
							src = src[:len(src)-1-r.Intn(len(src)/2)]
						}
					case 2:
						src[r.Intn(minInt(9, len(src)))] = byte(r.U64())
					case 3:
						src = append(src, r.Bytes(1+r.Intn(8))...)
					case 4:
						p := r.Intn(len(src))
						copy(src[p:], r.Bytes(minInt(8, len(src)-p)))
					}
				}
			case p < 85: // stored-block headers with wrong sizes (finding F9 family)
				n := r.Intn(40)
				body := r.Bytes(n)
				sd := []int{n, n + 1, 1000, 0, n - 1}[r.Intn(5)]
				if sd < 0 {
					sd = 0
				}
				src = append([]byte{byte(2 | 4*3), byte(9 + n), 0, 0, 0, byte(sd), byte(sd >> 8), 0, 0}, body...)
				if r.Bool() {
					src[0] = 2
				}
				c.Kind = "stored-header"
			default:
				src = r.Bytes(r.Intn(64))
				if len(src) > 0 && r.Bool() {
					src[0] |= 3
				}
				c.Kind = "random"
			}
			c.Src = hex.EncodeToString(src)
			c.SrcLen = len(src)
			arr, err := quicklz.CDecompressSafe(src)
			c.COk = err == nil
			if err == nil {
				c.CLen = len(arr.Body)
				c.CCrc = store.VerifCrc32(arr.Body)
				if len(arr.Body) <= 4096 {
					c.COut = hex.EncodeToString(arr.Body)
				}
				arr.Free()
			}
			g, err := quicklz.DecompressSafe(src)
			c.GoOk = err == nil
			if err == nil {
				c.GoLen = len(g)
				c.GoCrc = store.VerifCrc32(g)
			}
			if len(c.Src) > 16384 {
				c.Src = "" // too large for the in-Coq model: judged by the oracle only
			}
			if len(c.Plain) > 16384 {
				c.Plain = "crc:" + hex.EncodeToString([]byte{byte(len(c.Plain) / 2)})
			}
			out.Emit(c)
		}
		return nil
	}
}

func minInt(a, b int) int {
	if a < b {
		return a
	}
	return b
}

func init() {
	// c10f9: finding F9 (fixed): stored block announcing 1000 bytes in a 9-byte source
	suites["c10f9"] = func(seed uint64, count int, out *Out, args []string) error {
		arr, err := quicklz.CDecompressSafe([]byte{0x02, 0x09, 0, 0, 0, 0xe8, 0x03, 0, 0})
		println("F9 ok=" + map[bool]string{true: "true", false: "false"}[err == nil], len(arr.Body))
		return nil
	}
}

func init() {
	// c10f19: finding F19: the Go compressor's stream for a 2-byte input is rejected by the memory-safe C decompressor
	suites["c10f19"] = func(seed uint64, count int, out *Out, args []string) error {
		src := quicklz.Compress([]byte{0xdb, 0x45}, 3)
		_, err := quicklz.CDecompressSafe(src)
		println("F19 src=" + hex.EncodeToString(src) + " ok=" + map[bool]string{true: "true", false: "false"}[err == nil])
		return nil
	}
}
