package main

import (
	"fmt"
	"io/ioutil"
	"os"
	"path/filepath"
	"strconv"
	"strings"

	"github.com/douban/gobeansdb/store"
)

type jtop struct {
	Op  string `json:"op"` // s | r
	H   uint64 `json:"h"`
	Ver int32  `json:"ver"`
	Vh  uint16 `json:"vh"`
	Ck  int    `json:"ck"`
	Off uint32 `json:"off"`
}

type jlisting struct {
	T string     `json:"t"` // nil | err | nodes | items
	N [][2]uint64 `json:"n,omitempty"`
	I [][3]int64  `json:"i,omitempty"` // khash (as two halves would overflow int64: use strings below)
	K []string    `json:"k,omitempty"` // item key hashes (decimal strings), parallel to I (I[j][0] unused)
}

type jget struct {
	H     uint64 `json:"h"`
	Found bool   `json:"found"`
	Ver   int32  `json:"ver"`
	Vh    uint16 `json:"vh"`
	Ck    int    `json:"ck"`
	Off   uint32 `json:"off"`
}

type c08Case struct {
	I        int        `json:"i"`
	Kind     string     `json:"kind"`
	NB       int        `json:"nb"`
	Depth    int        `json:"depth"`
	Bucket   int        `json:"bucket"`
	Height   int        `json:"height"`
	OpsA     []jtop     `json:"opsa"`
	OpsB     []jtop     `json:"opsb"`
	Live     []jtop     `json:"live"` // final live content (op = "s")
	Prefixes []string   `json:"prefixes"`
	OutA     []jlisting `json:"outa"`
	OutB     []jlisting `json:"outb"`
	OutL     []jlisting `json:"outl"` // A after dump + load into a fresh tree
	Gets     []jget     `json:"gets"`
	RootA    [2]uint64  `json:"roota"`
	RootB    [2]uint64  `json:"rootb"`
	Mid      int        `json:"mid"`    // history A: a listing of prefix MidP is taken after the first Mid operations
	MidP     string     `json:"midp"`
	OutMid   jlisting   `json:"outmid"`
}

func parseListing(b []byte, err error) jlisting {
	if err != nil {
		return jlisting{T: "err"}
	}
	if b == nil {
		return jlisting{T: "nil"}
	}
	lines := strings.Split(strings.TrimRight(string(b), "\n"), "\n")
	if len(b) == 0 {
		return jlisting{T: "items", I: [][3]int64{}, K: []string{}}
	}
	if strings.Contains(lines[0], "/ ") {
		l := jlisting{T: "nodes"}
		for _, ln := range lines {
			f := strings.Fields(ln)
			h, _ := strconv.ParseUint(f[1], 10, 64)
			c, _ := strconv.ParseUint(f[2], 10, 64)
			l.N = append(l.N, [2]uint64{h, c})
		}
		return l
	}
	l := jlisting{T: "items", I: [][3]int64{}, K: []string{}}
	for _, ln := range lines {
		f := strings.Fields(ln)
		kh, _ := strconv.ParseUint(f[0], 16, 64)
		vh, _ := strconv.ParseInt(f[1], 10, 64)
		ver, _ := strconv.ParseInt(f[2], 10, 64)
		l.K = append(l.K, strconv.FormatUint(kh, 10))
		l.I = append(l.I, [3]int64{0, ver, vh})
	}
	return l
}

func applyOps(t *store.VerifTree, ops []jtop) {
	for _, o := range ops {
		if o.Op == "s" {
			t.Set(o.H, o.Ver, o.Vh, o.Ck, o.Off)
		} else {
			t.Remove(o.H, o.Ck, o.Off)
		}
	}
}

func init() {
	suites["c08"] = func(seed uint64, count int, out *Out, args []string) error {
		r := NewRng(seed)
		dir, err := ioutil.TempDir("", "verif-c08-")
		if err != nil {
			return err
		}
		defer os.RemoveAll(dir)
		for i := 0; i < count; i++ {
			c := c08Case{I: i}
			c.NB = []int{1, 16, 256}[r.Intn(3)]
			c.Depth = map[int]int{1: 0, 16: 1, 256: 2}[c.NB]
			maxh := 4
			c.Height = 2 + r.Intn(maxh-1)
			if c.Depth+c.Height > 8 {
				c.Height = 8 - c.Depth
			}
			c.Bucket = r.Intn(c.NB)
			store.Conf.NumBucket = c.NB
			store.Conf.TreeHeight = c.Height
			store.Conf.InitTree()
			// hash generator: bucket prefix + clustering
			prefixBits := uint(4 * c.Depth)
			var base uint64
			if c.Depth > 0 {
				base = uint64(c.Bucket) << (64 - prefixBits)
			}
			nkeys := 1 + r.Intn(40)
			cluster := 0 // extra shared digits below the bucket prefix
			switch r.Intn(6) {
			case 0:
				c.Kind = "inner-threshold"
				nkeys = 250 + r.Intn(12)
				cluster = 1 + r.Intn(c.Height-1)
				if cluster > c.Height-2 {
					cluster = c.Height - 2
				}
				if cluster < 0 {
					cluster = 0
				}
			case 1:
				c.Kind = "leaf-cfind"
				nkeys = 90 + r.Intn(22)
				cluster = c.Height - 1
			case 2:
				c.Kind = "big"
				nkeys = 300 + r.Intn(300)
				cluster = r.Intn(c.Height)
			default:
				c.Kind = "small"
				cluster = r.Intn(c.Height + 1)
			}
			clusterBits := uint(4 * cluster)
			clusterVal := r.U64()
			genHash := func() uint64 {
				h := r.U64()
				free := 64 - prefixBits - clusterBits
				var low uint64
				if free >= 64 {
					low = h
				} else {
					low = h & ((uint64(1) << free) - 1)
				}
				var mid uint64
				if clusterBits > 0 {
					mid = (clusterVal & ((uint64(1) << clusterBits) - 1)) << free
				}
				return base | mid | low
			}
			used := map[uint64]bool{}
			type ent struct {
				h   uint64
				ver int32
				vh  uint16
				ck  int
				off uint32
			}
			var final []ent
			for len(final) < nkeys {
				h := genHash()
				if used[h] {
					continue
				}
				used[h] = true
				ver := int32(1 + r.Intn(9))
				if r.Chance(15) {
					ver = -ver
				}
				final = append(final, ent{h, ver, uint16(r.U64()), r.Intn(5), uint32(r.Intn(1000)) * 256})
			}
			// history A: in order; tombstones as negative-version sets
			for _, e := range final {
				c.OpsA = append(c.OpsA, jtop{"s", e.h, e.ver, e.vh, e.ck, e.off})
				if e.ver > 0 {
					c.Live = append(c.Live, jtop{"s", e.h, e.ver, e.vh, e.ck, e.off})
				}
			}
			// history B: same live content by another route
			perm := make([]int, len(final))
			for j := range perm {
				perm[j] = j
			}
			for j := len(perm) - 1; j > 0; j-- {
				k := r.Intn(j + 1)
				perm[j], perm[k] = perm[k], perm[j]
			}
			for _, j := range perm {
				e := final[j]
				switch r.Intn(6) {
				case 0: // redundant older overwrite first
					c.OpsB = append(c.OpsB, jtop{"s", e.h, 1, uint16(r.U64()), 0, uint32(r.Intn(50)) * 256})
				case 1: // delete then re-set
					c.OpsB = append(c.OpsB, jtop{"s", e.h, 2, uint16(r.U64()), 1, 512})
					c.OpsB = append(c.OpsB, jtop{"s", e.h, -3, 0, 1, 768})
				case 2: // an unrelated key comes and goes (removed as replay of a tombstone does)
					h2 := genHash()
					if !used[h2] {
						c.OpsB = append(c.OpsB, jtop{"s", h2, 1, uint16(r.U64()), 0, 256})
						c.OpsB = append(c.OpsB, jtop{Op: "r", H: h2, Ck: -1, Off: 0})
					}
				case 3: // remove with a non-matching offset must not remove
					c.OpsB = append(c.OpsB, jtop{"s", e.h, 1, 5, 0, 1024})
					c.OpsB = append(c.OpsB, jtop{Op: "r", H: e.h, Ck: 0, Off: 2048})
				}
				if e.ver > 0 {
					c.OpsB = append(c.OpsB, jtop{"s", e.h, e.ver, e.vh, e.ck, e.off})
				} else if r.Bool() {
					c.OpsB = append(c.OpsB, jtop{"s", e.h, e.ver, e.vh, e.ck, e.off})
				} else { // rebuilt tree: tombstone removes the entry
					c.OpsB = append(c.OpsB, jtop{"s", e.h, 1, 9, 0, 0})
					c.OpsB = append(c.OpsB, jtop{Op: "r", H: e.h, Ck: -1, Off: 0})
				}
			}
			ta := store.VerifNewTree(c.Depth, c.Bucket, c.Height)
			tb := store.VerifNewTree(c.Depth, c.Bucket, c.Height)
			// prefixes: bucket prefix, every length along a few keys, some absent ones
			bp := ""
			if c.Depth > 0 {
				bp = fmt.Sprintf("%0*x", c.Depth, c.Bucket)
			}
			// history A is interrupted by a listing (all nodes become "updated"), as replica sync does between writes
			c.Mid = 1 + r.Intn(len(c.OpsA))
			c.MidP = bp
			if r.Chance(30) {
				c.MidP = fmt.Sprintf("%016x", final[r.Intn(len(final))].h)[:c.Depth+r.Intn(c.Height)]
			}
			applyOps(ta, c.OpsA[:c.Mid])
			c.OutMid = parseListing(ta.ListDir(c.MidP))
			applyOps(ta, c.OpsA[c.Mid:])
			applyOps(tb, c.OpsB)
			seen := map[string]bool{}
			addp := func(p string) {
				if !seen[p] && len(p) >= c.Depth && len(p) <= 16 {
					seen[p] = true
					c.Prefixes = append(c.Prefixes, p)
				}
			}
			addp(bp)
			for q := 0; q < 3; q++ {
				e := final[r.Intn(len(final))]
				full := fmt.Sprintf("%016x", e.h)
				for l := c.Depth; l <= 16; l++ {
					if l <= c.Depth+c.Height+1 || l == 16 || r.Chance(30) {
						addp(full[:l])
					}
				}
			}
			for q := 0; q < 3; q++ {
				full := fmt.Sprintf("%016x", genHash())
				addp(full[:c.Depth+r.Intn(c.Height+2)])
			}
			for _, p := range c.Prefixes {
				c.OutA = append(c.OutA, parseListing(ta.ListDir(p)))
				c.OutB = append(c.OutB, parseListing(tb.ListDir(p)))
			}
			ha, ca := ta.Root()
			hb, cb := tb.Root()
			c.RootA = [2]uint64{uint64(ha), uint64(ca)}
			c.RootB = [2]uint64{uint64(hb), uint64(cb)}
			for q := 0; q < 8; q++ {
				var h uint64
				if r.Chance(70) {
					h = final[r.Intn(len(final))].h
				} else {
					h = genHash()
				}
				ver, vh, ck, off, found := tb.Get(h)
				c.Gets = append(c.Gets, jget{h, found, ver, vh, ck, off})
			}
			// dump + load
			dp := filepath.Join(dir, "000.000.idx.hash")
			os.Remove(dp)
			ta.Dump(dp)
			tl := store.VerifNewTree(c.Depth, c.Bucket, c.Height)
			if err := tl.Load(dp); err != nil {
				return err
			}
			for _, p := range c.Prefixes {
				c.OutL = append(c.OutL, parseListing(tl.ListDir(p)))
			}
			ta.Release()
			tb.Release()
			tl.Release()
			out.Emit(c)
		}
		return nil
	}
}
