package main

import (
	"encoding/hex"
	"fmt"
	"io/ioutil"
	"os"
	"path/filepath"
	"strings"

	"github.com/douban/gobeansdb/config"
	"github.com/douban/gobeansdb/store"
)

type jrec struct {
	K    string `json:"k"`             // key hex
	V    string `json:"v,omitempty"`   // value hex, or
	VGen uint64 `json:"vgen,omitempty"` // lcg seed
	VLen int    `json:"vlen"`
	Flag uint32 `json:"flag"`
	Ver  int32  `json:"ver"`
	TS   uint32 `json:"ts"`
}

type jmut struct {
	Pos int  `json:"pos"`
	Val byte `json:"val"`
}

type jscan struct {
	Off    uint32 `json:"off"`
	Broken uint32 `json:"broken"`
	K      string `json:"k"`
	Flag   uint32 `json:"flag"`
	Ver    int32  `json:"ver"`
	TS     uint32 `json:"ts"`
	VLen   int    `json:"vlen"`
	VCrc   uint32 `json:"vcrc"`
}

type c09Case struct {
	I       int     `json:"i"`
	Kind    string  `json:"kind"`
	MaxKey  int     `json:"maxkey"`
	BodyMax int64   `json:"bodymax"`
	Recs    []jrec  `json:"recs"`
	Muts    []jmut  `json:"muts"`
	Trunc   int     `json:"trunc"` // -1 = none, else new file length
	MutKind []string `json:"mutkinds"`
	// observables
	Offsets  []uint32 `json:"offsets"`
	FileLen  int      `json:"filelen"`
	FileHex  string   `json:"filehex,omitempty"` // clean file bytes when small
	FileCrc  uint32   `json:"filecrc"`           // CRC of the clean file
	ReadAt   []int    `json:"readat"`            // per 256-block of the damaged file: 0 ok, 1..5 error class
	ReadAtD  []jscan  `json:"readatd"`           // digests of the successful positional reads
	Scan     []jscan  `json:"scan"`
	ScanEnd  string   `json:"scanend"`
	ScanFrom uint32   `json:"scanfrom"`
}

func recBytes(j jrec) (k, v []byte) {
	k, _ = hex.DecodeString(j.K)
	if j.VGen != 0 {
		v = lcgBytes(j.VLen, j.VGen)
	} else {
		v, _ = hex.DecodeString(j.V)
	}
	return
}

func errClass(err error) int {
	if err == nil {
		return 0
	}
	s := err.Error()
	switch {
	case strings.HasPrefix(s, "fail to read head"):
		return 1
	case strings.HasPrefix(s, "bad key size"):
		return 2
	case strings.HasPrefix(s, "bad value size"):
		return 3
	case strings.HasPrefix(s, "fail to  read"):
		return 4
	case strings.HasPrefix(s, "crc check fail"):
		return 5
	}
	return 9
}

func digest(r *store.VerifRec, off, broken uint32) jscan {
	return jscan{Off: off, Broken: broken, K: hex.EncodeToString(r.Key), Flag: r.Flag, Ver: r.Ver, TS: r.TS,
		VLen: len(r.Value), VCrc: store.VerifCrc32(r.Value)}
}

func genKey(r *Rng) []byte {
	var n int
	switch r.Intn(6) {
	case 0:
		n = 1
	case 1:
		n = 250
	case 2:
		n = 200 + r.Intn(51)
	default:
		n = 1 + r.Intn(40)
	}
	k := make([]byte, n)
	for i := range k {
		if r.Chance(10) {
			k[i] = byte(0x80 + r.Intn(128))
		} else {
			k[i] = byte(0x21 + r.Intn(94))
		}
	}
	if k[0] == '?' || k[0] == '@' {
		k[0] = 'k'
	}
	return k
}

func genRec(r *Rng, big bool) jrec {
	k := genKey(r)
	var vlen int
	switch r.Intn(8) {
	case 0:
		vlen = 0
	case 1: // straddle a block boundary exactly: 24+k+v around multiples of 256
		m := 1 + r.Intn(3)
		vlen = m*256 - 24 - len(k) + r.Intn(3) - 1
		if vlen < 0 {
			vlen = 0
		}
	case 2:
		vlen = r.Intn(2000)
	case 3:
		if big {
			vlen = 4000 + r.Intn(30000)
		} else {
			vlen = r.Intn(700)
		}
	default:
		vlen = r.Intn(300)
	}
	j := jrec{K: hex.EncodeToString(k), VLen: vlen}
	if vlen > 600 {
		j.VGen = r.U64()&0x7fffffff | 1
	} else {
		j.V = hex.EncodeToString(r.Bytes(vlen))
	}
	switch r.Intn(4) {
	case 0:
		j.Flag, j.Ver, j.TS = 0, 1, 0
	case 1:
		j.Flag, j.Ver, j.TS = 0xffffffff, -2147483648, 0xffffffff
	case 2:
		j.Flag, j.Ver, j.TS = uint32(r.U64()), int32(r.U64()), uint32(r.U64())
	default:
		j.Flag, j.Ver, j.TS = uint32(r.Intn(0x20000)), int32(r.Intn(2000)-1000), uint32(1400000000+r.Intn(1000000))
	}
	return j
}

// embedRec builds a record whose value contains, at a 256-aligned file position, the
// complete image of another valid record (the A_blk case).
func embedRec(r *Rng, fileOff int) jrec {
	inner := genRec(r, false)
	ik, iv := recBytes(inner)
	img := store.VerifEncode(&store.VerifRec{Key: ik, Value: iv, Flag: inner.Flag, Ver: inner.Ver, TS: inner.TS})
	k := genKey(r)
	// value starts at fileOff+24+len(k); pad so that the image starts at the next block boundary
	start := fileOff + 24 + len(k)
	pad := (256 - start%256) % 256
	v := append(r.Bytes(pad), img...)
	v = append(v, r.Bytes(r.Intn(100))...)
	return jrec{K: hex.EncodeToString(k), V: hex.EncodeToString(v), VLen: len(v), Flag: 7, Ver: 3, TS: 99}
}

func init() {
	suites["c09"] = func(seed uint64, count int, out *Out, args []string) error {
		r := NewRng(seed)
		dir, err := ioutil.TempDir("", "verif-c09-")
		if err != nil {
			return err
		}
		defer os.RemoveAll(dir)
		store.Conf.BufIOCap = 1 << 16
		big := len(args) > 0 && args[0] == "big"
		for i := 0; i < count; i++ {
			c := c09Case{I: i, Trunc: -1, MaxKey: 250}
			c.BodyMax = []int64{1 << 20, 1 << 20, 70000, 4096, 2 << 20, 50 << 20}[r.Intn(5+r.Intn(2)*r.Intn(2))]
			config.MCConf.MaxKeyLen = c.MaxKey
			config.MCConf.BodyMax = c.BodyMax
			nrec := 1 + r.Intn(8)
			if r.Chance(15) {
				nrec = 9 + r.Intn(42)
			}
			fileOff := 0
			var vrecs []*store.VerifRec
			for j := 0; j < nrec; j++ {
				var jr jrec
				if r.Chance(5) {
					jr = embedRec(r, fileOff)
				} else {
					jr = genRec(r, big && nrec < 9)
				}
				if int64(jr.VLen) > c.BodyMax {
					jr = jrec{K: jr.K, V: "", VLen: 0, Flag: jr.Flag, Ver: jr.Ver, TS: jr.TS}
				}
				k, v := recBytes(jr)
				c.Recs = append(c.Recs, jr)
				vrecs = append(vrecs, &store.VerifRec{Key: k, Value: v, Flag: jr.Flag, Ver: jr.Ver, TS: jr.TS})
				fileOff += (24 + len(k) + len(v) + 255) / 256 * 256
			}
			path := filepath.Join(dir, fmt.Sprintf("%03d.data", i%7))
			os.Remove(path)
			offs, err := store.VerifWriteRecords(path, vrecs)
			if err != nil {
				return err
			}
			c.Offsets = offs
			clean, _ := ioutil.ReadFile(path)
			c.FileLen = len(clean)
			c.FileCrc = store.VerifCrc32(clean)
			if len(clean) <= 3072 {
				c.FileHex = hex.EncodeToString(clean)
			}
			// ---- faults
			data := append([]byte{}, clean...)
			c.Kind = "clean"
			if r.Chance(75) {
				c.Kind = "fault"
				nm := 1 + r.Intn(3)
				for m := 0; m < nm; m++ {
					j := r.Intn(nrec)
					ro := int(offs[j])
					k, v := recBytes(c.Recs[j])
					recEnd := ro + (24+len(k)+len(v)+255)/256*256
					setb := func(pos int, val byte) {
						if pos < len(data) {
							data[pos] = val
							c.Muts = append(c.Muts, jmut{pos, val})
						}
					}
					put32 := func(pos int, x uint32) {
						for b := 0; b < 4; b++ {
							setb(pos+b, byte(x>>(8*uint(b))))
						}
					}
					switch r.Intn(10) {
					case 0: // bit flip anywhere in the record
						p := ro + r.Intn(24+len(k)+len(v))
						setb(p, data[p]^(1<<uint(r.Intn(8))))
						c.MutKind = append(c.MutKind, "bitflip")
					case 1: // byte change in key/value
						p := ro + 24 + r.Intn(len(k)+len(v))
						setb(p, data[p]+byte(1+r.Intn(255)))
						c.MutKind = append(c.MutKind, "byte")
					case 2: // crc field
						p := ro + r.Intn(4)
						setb(p, data[p]+byte(1+r.Intn(255)))
						c.MutKind = append(c.MutKind, "crcfield")
					case 3: // zero a block
						b := (ro + 256*r.Intn((recEnd-ro)/256)) / 256 * 256
						for p := b; p < b+256; p++ {
							setb(p, 0)
						}
						c.MutKind = append(c.MutKind, "zeroblock")
					case 4: // ksz damage
						put32(ro+16, []uint32{0, 251, 0xffffffff, uint32(len(k) + 1), uint32(len(k)) + 256}[r.Intn(5)])
						c.MutKind = append(c.MutKind, "ksz")
					case 5: // vsz damage: zero, huge in range, out of range, off by small
						put32(ro+20, []uint32{0, uint32(c.BodyMax), uint32(c.BodyMax) + 1, 0xffffffff, uint32(len(v) + 256), uint32(len(v)) + 1, 0x100000}[r.Intn(7)])
						c.MutKind = append(c.MutKind, "vsz")
					case 6: // truncate at a block boundary
						if c.Trunc < 0 {
							c.Trunc = 256 * r.Intn(len(data)/256+1)
							c.MutKind = append(c.MutKind, "trunc-aligned")
						}
					case 7: // truncate unaligned
						if c.Trunc < 0 {
							c.Trunc = r.Intn(len(data) + 1)
							c.MutKind = append(c.MutKind, "trunc-unaligned")
						}
					case 8: // multi-byte garbage
						p := ro + r.Intn(recEnd-ro)
						for q := 0; q < 1+r.Intn(40); q++ {
							setb(p+q, byte(r.U64()))
						}
						c.MutKind = append(c.MutKind, "garbage")
					case 9: // ts/flag/ver field byte
						p := ro + 4 + r.Intn(12)
						setb(p, data[p]+byte(1+r.Intn(255)))
						c.MutKind = append(c.MutKind, "metafield")
					}
				}
				if c.Trunc >= 0 && c.Trunc < len(data) {
					data = data[:c.Trunc]
				} else {
					c.Trunc = -1
				}
				ioutil.WriteFile(path, data, 0644)
			}
			// ---- observe
			nblk := (len(data) + 255) / 256
			if nblk > 48 {
				nblk = 48
			}
			for b := 0; b < nblk; b++ {
				rec, err := store.VerifReadRecordAt(path, uint32(b*256))
				c.ReadAt = append(c.ReadAt, errClass(err))
				if err == nil {
					c.ReadAtD = append(c.ReadAtD, digest(rec, uint32(b*256), 0))
				}
			}
			c.ScanFrom = 0
			if r.Chance(20) && nrec > 1 {
				c.ScanFrom = offs[r.Intn(nrec)]
			}
			items, err := store.VerifScan(path, c.ScanFrom)
			c.ScanEnd = "ok"
			if err != nil {
				c.ScanEnd = "err"
			}
			c.Scan = []jscan{}
			for _, it := range items {
				c.Scan = append(c.Scan, digest(it.Rec, it.Offset, it.SizeBroken))
			}
			if c.Muts == nil {
				c.Muts = []jmut{}
			}
			if c.ReadAtD == nil {
				c.ReadAtD = []jscan{}
			}
			out.Emit(c)
		}
		return nil
	}
}

func init() {
	// c09f2: the known finding F2 (5-record file, vsz of record 1 := 0x100000): prints the scan end status
	suites["c09f2"] = func(seed uint64, count int, out *Out, args []string) error {
		dir, err := ioutil.TempDir("", "verif-c09f2-")
		if err != nil {
			return err
		}
		defer os.RemoveAll(dir)
		store.Conf.BufIOCap = 1 << 16
		config.MCConf.MaxKeyLen = 250
		config.MCConf.BodyMax = 50 << 20
		var recs []*store.VerifRec
		for i := 0; i < 5; i++ {
			recs = append(recs, &store.VerifRec{Key: []byte(fmt.Sprintf("key%d", i)), Value: []byte(fmt.Sprintf("value%d", i)), Ver: 1})
		}
		path := filepath.Join(dir, "000.data")
		if _, err := store.VerifWriteRecords(path, recs); err != nil {
			return err
		}
		data, _ := ioutil.ReadFile(path)
		data[256+20], data[256+21], data[256+22], data[256+23] = 0, 0, 0x10, 0
		ioutil.WriteFile(path, data, 0644)
		items, err := store.VerifScan(path, 0)
		st := "ok"
		if err != nil {
			st = "err"
		}
		fmt.Printf("F2 scan yielded=%d end=%s\n", len(items), st)
		return nil
	}
}
