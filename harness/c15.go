package main

import (
	"encoding/hex"
	"fmt"
	"io/ioutil"
	"os"
	"path/filepath"
	"sort"
	"strings"
	"sync/atomic"
	"time"

	"github.com/douban/gobeansdb/cmem"
	"github.com/douban/gobeansdb/config"
	"github.com/douban/gobeansdb/gobeansdb"
	"github.com/douban/gobeansdb/loghub"
	mc "github.com/douban/gobeansdb/memcache"
	"github.com/douban/gobeansdb/store"
)

type c15key struct {
	K    string `json:"k"`
	Hash uint64 `json:"hash"`
	Set  string `json:"set"`
	Get  string `json:"get"`
	V    string `json:"v"`
}

type c15Case struct {
	I        int               `json:"i"`
	NB       int               `json:"nb"`
	Height   int               `json:"height"`
	Served   []int             `json:"served"`
	Keys     []c15key          `json:"keys"`
	Dirs     map[string][]string `json:"dirs"`     // relative dir -> keys (hex) found in its data files
	AllFiles []string          `json:"allfiles"` // every file under home (relative)
	Listings map[string]string `json:"listings"` // "@prefix" -> raw listing text or "NIL"/"ERR"
}

func init() {
	suites["c15"] = func(seed uint64, count int, out *Out, args []string) error {
		loghub.ErrorLogger.SetLevel(loghub.FATAL)
		r := NewRng(seed)
		root, err := ioutil.TempDir("", "verif-c15-")
		if err != nil {
			return err
		}
		defer os.RemoveAll(root)
		store.VerifSetPointFn(func(name string) {
			if name == "open.bgcheck.done" {
				atomic.AddInt64(&openDone, 1)
			}
		})
		for i := 0; i < count; i++ {
			c := c15Case{I: i, Dirs: map[string][]string{}, Listings: map[string]string{}}
			c.NB = []int{1, 16, 256}[r.Intn(3)]
			depth := map[int]int{1: 0, 16: 1, 256: 2}[c.NB]
			c.Height = 2 + r.Intn(2)
			home := filepath.Join(root, fmt.Sprintf("c%d", i))
			os.MkdirAll(home, 0755)
			store.Conf.InitDefault()
			store.Conf.Home = home
			store.Conf.NumBucket = c.NB
			store.Conf.BucketsStat = make([]int, c.NB)
			switch r.Intn(4) {
			case 0: // none
			case 1: // one
				store.Conf.BucketsStat[r.Intn(c.NB)] = 1
			case 2: // some
				for b := 0; b < c.NB; b++ {
					if r.Chance(40) {
						store.Conf.BucketsStat[b] = 1
					}
				}
			default: // all
				for b := 0; b < c.NB; b++ {
					store.Conf.BucketsStat[b] = 1
				}
			}
			for b, s := range store.Conf.BucketsStat {
				if s > 0 {
					c.Served = append(c.Served, b)
				}
			}
			store.Conf.TreeHeight = c.Height
			store.Conf.Init()
			store.Conf.FlushInterval = 1000000
			store.Conf.FlushWake = 1 << 40
			store.SecsBeforeDump = -1
			config.MCConf.BodyMax = 50 << 20
			config.MCConf.MaxKeyLen = 250
			store.VerifSetKeyHash(nil)
			atomic.StoreInt64(&openDone, 0)
			hs, err := store.NewHStore()
			if err != nil {
				return err
			}
			hs.VerifWaitOpen(func() int { return int(atomic.LoadInt64(&openDone)) })
			client := gobeansdb.VerifNewStorage(hs).Client()
			nkeys := 20 + r.Intn(60)
			usedk := map[string]bool{}
			for j := 0; j < nkeys; j++ {
				k := validKeyInBucket(r, 1, 0, nil)
				if usedk[string(k)] {
					continue
				}
				usedk[string(k)] = true
				v := r.Bytes(1 + r.Intn(30))
				ck := c15key{K: hex.EncodeToString(k), Hash: store.VerifKeyHashDefault(k), V: hex.EncodeToString(v)}
				item := &mc.Item{Flag: 0, Exptime: 0, ReceiveTime: time.Unix(1700000000, 0)}
				item.CArray.Alloc(len(v))
				copy(item.CArray.Body, v)
				cmem.DBRL.SetData.AddSizeAndCount(item.CArray.Cap)
				ok, err := client.Set(string(k), item, false)
				switch {
				case err != nil:
					ck.Set = "ERR"
				case ok:
					ck.Set = "STORED"
				default:
					ck.Set = "NOT_STORED"
				}
				c.Keys = append(c.Keys, ck)
			}
			hs.VerifFlush()
			hs.VerifWaitIdle()
			for j := range c.Keys {
				k, _ := hex.DecodeString(c.Keys[j].K)
				it, err := client.Get(string(k))
				switch {
				case err != nil:
					c.Keys[j].Get = "ERR"
				case it == nil:
					c.Keys[j].Get = "MISS"
				default:
					c.Keys[j].Get = "HIT " + hex.EncodeToString(it.Body)
					cmem.DBRL.GetData.SubSizeAndCount(it.CArray.Cap)
					it.CArray.Free()
				}
			}
			// listings: above, at and below bucket depth
			prefixes := []string{""}
			for d := 1; d <= depth+c.Height && d <= 4; d++ {
				for q := 0; q < 3; q++ {
					p := ""
					for e := 0; e < d; e++ {
						p += fmt.Sprintf("%x", r.Intn(16))
					}
					prefixes = append(prefixes, p)
				}
			}
			for _, ck := range c.Keys[:3] {
				full := fmt.Sprintf("%016x", ck.Hash)
				for d := 1; d <= depth+1; d++ {
					prefixes = append(prefixes, full[:d])
				}
			}
			for _, p := range prefixes {
				it, err := client.Get("@" + p)
				switch {
				case err != nil:
					c.Listings[p] = "ERR"
				case it == nil:
					c.Listings[p] = "NIL"
				default:
					c.Listings[p] = string(it.Body)
				}
			}
			hs.Close()
			filepath.Walk(home, func(p string, info os.FileInfo, err error) error {
				if err != nil || info.IsDir() {
					return nil
				}
				rel, _ := filepath.Rel(home, p)
				c.AllFiles = append(c.AllFiles, rel)
				if strings.HasSuffix(rel, ".data") {
					recs, _ := scanDataFile(p)
					d := filepath.Dir(rel)
					for _, rc := range recs {
						c.Dirs[d] = append(c.Dirs[d], rc[1])
					}
				}
				return nil
			})
			sort.Strings(c.AllFiles)
			os.RemoveAll(home)
			out.Emit(c)
		}
		return nil
	}
}
