package main

import (
	"encoding/json"
	"fmt"
	"io/ioutil"
	"os"
	"path/filepath"
	"time"

	"github.com/douban/gobeansdb/loghub"
	"github.com/douban/gobeansdb/store"
)

// l2script <file.json>: runs a scripted history {cfg, ops} (corpus entries, known findings,
// seeded changes' demonstrations) and emits the case with the implementation's replies.
func init() {
	suites["l2script"] = func(seed uint64, count int, out *Out, args []string) error {
		loghub.ErrorLogger.SetLevel(loghub.FATAL)
		if len(args) < 1 {
			return fmt.Errorf("usage: l2script file.json")
		}
		raw, err := ioutil.ReadFile(args[0])
		if err != nil {
			return err
		}
		var c l2Case
		if err := json.Unmarshal(raw, &c); err != nil {
			return err
		}
		root, err := ioutil.TempDir("", "verif-l2s-")
		if err != nil {
			return err
		}
		defer os.RemoveAll(root)
		now := time.Now().Unix()
		c.Cfg.Now = now
		run := &l2runner{home: filepath.Join(root, "case"), cfg: c.Cfg, forced: map[string]uint64{}}
		os.MkdirAll(run.home, 0755)
		for _, f := range c.Cfg.Forced {
			var h uint64
			fmt.Sscanf(f[1], "%d", &h)
			k, _ := hexDecode(f[0])
			run.forced[string(k)] = h
		}
		if err := run.open(); err != nil {
			return err
		}
		base := uint32(now - 30*86400)
		for i := range c.Ops {
			op := &c.Ops[i]
			if op.Op == "S" && op.TS == 0 {
				op.TS = base + uint32(i)
			}
			run.exec(op)
			if op.Res == "REFUSE" {
				break
			}
		}
		if run.hs != nil {
			run.hs.VerifWaitIdle()
			run.hs.Close()
		}
		store.VerifSetKeyHash(nil)
		out.Emit(c)
		return nil
	}
}
