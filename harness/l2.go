package main

import (
	"encoding/binary"
	"encoding/hex"
	"fmt"
	"hash/crc32"
	"io/ioutil"
	"encoding/json"
	"os"
	"path/filepath"
	"sort"
	"strconv"
	"strings"
	"sync/atomic"
	"time"

	"github.com/douban/gobeansdb/cmem"
	"github.com/douban/gobeansdb/config"
	"github.com/douban/gobeansdb/gobeansdb"
	"github.com/douban/gobeansdb/loghub"
	mc "github.com/douban/gobeansdb/memcache"
	"github.com/douban/gobeansdb/quicklz"
	"github.com/douban/gobeansdb/store"
)

const tsNow = 4294967295

type l2cfg struct {
	NB         int    `json:"nb"`
	Bucket     int    `json:"bucket"`
	Height     int    `json:"height"`
	FileMax    int64  `json:"filemax"`
	BodyMax    int64  `json:"bodymax"`
	SplitCap   int64  `json:"splitcap"`
	CheckVHash bool   `json:"checkvhash"`
	TreeDump   int    `json:"treedump"`
	NoGCDays   int    `json:"nogcdays"`
	Now        int64  `json:"now"`
	Forced     [][2]string `json:"forced"` // key hex, hash decimal
}

type l2op struct {
	Op    string `json:"op"`
	K     string `json:"k,omitempty"`
	V     string `json:"v,omitempty"`
	Flag  uint32 `json:"flag,omitempty"`
	Rev   int    `json:"rev,omitempty"`
	TS    uint32 `json:"ts,omitempty"`
	Z     [3]int `json:"z"` // sniff ok, probe clen, full clen
	Delta int    `json:"delta,omitempty"`
	// restart
	RmTrees  bool     `json:"rmtrees,omitempty"`
	RmHints  [][2]int `json:"rmhints,omitempty"`
	RmMerged bool     `json:"rmmerged,omitempty"`
	// gc
	A     int  `json:"a,omitempty"`
	B     int  `json:"b,omitempty"`
	Days  int  `json:"days,omitempty"`
	Merge bool `json:"merge,omitempty"`
	Again bool `json:"again,omitempty"` // same resolved range as the previous pass
	// outputs
	Res  string   `json:"res"`
	Out  []string `json:"out,omitempty"`
	Dir  *l2dir   `json:"dir,omitempty"`
}

type l2file struct {
	Chunk int        `json:"chunk"`
	Size  int64      `json:"size"`
	Recs  [][4]string `json:"recs"` // offset, keyhex, ver, ts
}

type l2dir struct {
	Data   []l2file `json:"data"`
	Hints  []string `json:"hints"`
	Trees  []string `json:"trees"`
	Merged []string `json:"merged"`
	Other  []string `json:"other"`
}

type l2Case struct {
	I    int    `json:"i"`
	Kind string `json:"kind"`
	Cfg  l2cfg  `json:"cfg"`
	Ops  []l2op `json:"ops"`
	Stop string `json:"stop,omitempty"` // why the generator ended the write phase early (known finding F24)
}

// spilledPastHead: a GC pass left data in a file ABOVE the one receiving appends (known finding F24: a record larger
// than DataFileMax pushes the GC destination past the collected range).  The next client write that rotates into
// such a file is placed at offset 0 over the relocated records and the following flush ends the process with
// logger.Fatalf("wrong data file size ..."), so a history must not issue writes in that state; the generator ends
// its write phase there and the closing sweep (reads, restart, reads) still runs.
func spilledPastHead(d *l2dir, head int) bool {
	if d == nil || os.Getenv("VERIF_F24_CONTINUE") != "" { // the variable lets the generator run into the abort (demonstration, tests of the abort capture)
		return false
	}
	for _, f := range d.Data {
		if f.Chunk > head && f.Size > 0 {
			return true
		}
	}
	return false
}

// independent record scanner (stdlib CRC, no store code)
func scanDataFile(path string) (recs [][4]string, size int64) {
	data, err := ioutil.ReadFile(path)
	if err != nil {
		return nil, -1
	}
	size = int64(len(data))
	recs = [][4]string{}
	for off := 0; off+24 <= len(data); {
		crc := binary.LittleEndian.Uint32(data[off:])
		ts := binary.LittleEndian.Uint32(data[off+4:])
		ver := int32(binary.LittleEndian.Uint32(data[off+12:]))
		ksz := int(binary.LittleEndian.Uint32(data[off+16:]))
		vsz := int(binary.LittleEndian.Uint32(data[off+20:]))
		if ksz >= 1 && ksz <= 250 && vsz >= 0 && vsz <= (64<<20) && off+24+ksz+vsz <= len(data) &&
			crc32.ChecksumIEEE(data[off+4:off+24+ksz+vsz]) == crc {
			recs = append(recs, [4]string{strconv.Itoa(off), hex.EncodeToString(data[off+24 : off+24+ksz]), strconv.Itoa(int(ver)), strconv.FormatUint(uint64(ts), 10)})
			off += (24 + ksz + vsz + 255) / 256 * 256
		} else {
			off += 256
		}
	}
	return
}

func snapshotDir(home string) *l2dir {
	d := &l2dir{Data: []l2file{}, Hints: []string{}, Trees: []string{}, Merged: []string{}, Other: []string{}}
	ents, _ := ioutil.ReadDir(home)
	for _, e := range ents {
		n := e.Name()
		switch {
		case strings.HasSuffix(n, ".data"):
			ck, _ := strconv.Atoi(n[:3])
			recs, size := scanDataFile(filepath.Join(home, n))
			d.Data = append(d.Data, l2file{ck, size, recs})
		case strings.HasSuffix(n, ".idx.s"):
			d.Hints = append(d.Hints, n)
		case strings.HasSuffix(n, ".idx.hash"):
			d.Trees = append(d.Trees, n)
		case strings.HasSuffix(n, ".idx.m"):
			d.Merged = append(d.Merged, n)
		default:
			if !e.IsDir() {
				d.Other = append(d.Other, n)
			}
		}
	}
	sort.Slice(d.Data, func(a, b int) bool { return d.Data[a].Chunk < d.Data[b].Chunk })
	return d
}

var openDone int64

func init() {
	store.VerifSetPointFn(func(name string) {
		if name == "open.bgcheck.done" {
			atomic.AddInt64(&openDone, 1)
		}
	})
}

type l2runner struct {
	home   string
	cfg    l2cfg
	hs     *store.HStore
	client mc.StorageClient
	forced map[string]uint64
}

func (r *l2runner) configure() {
	c := r.cfg
	store.Conf.InitDefault()
	store.Conf.Home = r.home
	store.Conf.NumBucket = c.NB
	store.Conf.BucketsStat = make([]int, c.NB)
	store.Conf.BucketsStat[c.Bucket] = 1
	store.Conf.TreeHeight = c.Height
	store.Conf.TreeDump = c.TreeDump
	store.Conf.Init()
	store.Conf.DataFileMax = c.FileMax
	store.Conf.SplitCap = c.SplitCap
	store.Conf.CheckVHash = c.CheckVHash
	store.Conf.NoGCDays = c.NoGCDays
	store.Conf.FlushInterval = 1000000
	store.Conf.FlushWake = 1 << 40
	store.Conf.BufIOCap = 1 << 16
	store.SecsBeforeDump = -1
	config.MCConf.BodyMax = c.BodyMax
	config.MCConf.MaxKeyLen = 250
	config.MCConf.BodyInC = 4096
	if len(r.forced) > 0 {
		f := r.forced
		store.VerifSetKeyHash(func(k []byte) uint64 {
			if h, ok := f[string(k)]; ok {
				return h
			}
			return store.VerifKeyHashDefault(k)
		})
	} else {
		store.VerifSetKeyHash(nil)
	}
}

func (r *l2runner) open() error {
	r.configure()
	atomic.StoreInt64(&openDone, 0)
	hs, err := store.NewHStore()
	if err != nil {
		return err
	}
	r.hs = hs
	r.hs.VerifWaitOpen(func() int { return int(atomic.LoadInt64(&openDone)) })
	r.client = gobeansdb.VerifNewStorage(hs).Client()
	return nil
}

func bucketHome(home string, nb, b int) string {
	return filepath.Join(home, store.GetBucketDir(nb, b))
}

func zinfoOf(klen int, v []byte) [3]int {
	try := v
	if len(try) > 10240 {
		try = try[:10240]
	}
	z := [3]int{0, 0, 0}
	if store.NeedCompress(try) {
		z[0] = 1
	}
	if len(v) == 0 {
		return z
	}
	c1, ok := quicklz.CCompress(try)
	if ok {
		z[1] = len(c1.Body)
		c1.Free()
	}
	if len(v) > len(try) {
		c2, ok := quicklz.CCompress(v)
		if ok {
			z[2] = len(c2.Body)
			c2.Free()
		}
	} else {
		z[2] = z[1]
	}
	return z
}

// VERIF_TRACE=<file>: every operation is appended to the file BEFORE it runs (to recover the history when the
// implementation kills the process, e.g. logger.Fatalf)
var l2trace *os.File

func l2mark(v interface{}) {
	if l2trace == nil {
		if p := os.Getenv("VERIF_TRACE"); p != "" {
			l2trace, _ = os.OpenFile(p, os.O_CREATE|os.O_WRONLY|os.O_APPEND, 0644)
		}
	}
	if l2trace != nil {
		b, _ := json.Marshal(v)
		l2trace.Write(append(b, '\n'))
	}
}

func (r *l2runner) exec(op *l2op) {
	l2mark(op)
	k, _ := hex.DecodeString(op.K)
	key := string(k)
	switch op.Op {
	case "S":
		v, _ := hex.DecodeString(op.V)
		op.Z = zinfoOf(len(k), v)
		item := &mc.Item{Flag: int(op.Flag), Exptime: op.Rev, ReceiveTime: time.Unix(int64(op.TS), 0)}
		if !item.CArray.Alloc(len(v)) {
			op.Res = "ERR alloc"
			return
		}
		copy(item.CArray.Body, v)
		cmem.DBRL.SetData.AddSizeAndCount(item.CArray.Cap)
		ok, err := r.client.Set(key, item, false)
		switch {
		case err != nil:
			op.Res = "ERR " + err.Error()
		case ok:
			op.Res = "STORED"
		default:
			op.Res = "NOT_STORED"
		}
		r.hs.VerifWaitIdle()
	case "D":
		ok, err := r.client.Delete(key)
		switch {
		case err != nil:
			op.Res = "ERR"
		case ok:
			op.Res = "DELETED"
		default:
			op.Res = "NOT_FOUND"
		}
		r.hs.VerifWaitIdle()
	case "I":
		cmem.DBRL.SetData.AddCount(1)
		n, _ := r.client.Incr(key, op.Delta)
		op.Res = strconv.Itoa(n)
		r.hs.VerifWaitIdle()
	case "G":
		it, err := r.client.Get(key)
		switch {
		case err != nil:
			op.Res = "ERR"
		case it == nil:
			op.Res = "MISS"
		default:
			op.Res = "HIT"
			op.Out = []string{hex.EncodeToString(it.Body), strconv.Itoa(it.Flag)}
			cmem.DBRL.GetData.SubSizeAndCount(it.CArray.Cap)
			it.CArray.Free()
		}
	case "M":
		it, err := r.client.Get("??" + key)
		switch {
		case err != nil:
			op.Res = "ERR"
		case it == nil:
			op.Res = "MISS"
		default:
			op.Res = "META"
			op.Out = strings.Fields(string(it.Body))
		}
	case "T": // what the in-memory index (collision table, then tree) holds for the key: version, value hash, position
		ki := store.NewKeyInfoFromBytes(k, 0, false)
		p, pos, err := r.hs.Get(ki, true)
		switch {
		case err != nil:
			op.Res = "ERR"
		case p == nil:
			op.Res = "MISS"
		default:
			op.Res = "TREE"
			op.Out = []string{strconv.Itoa(int(p.Ver)), strconv.Itoa(int(p.ValueHash)), strconv.Itoa(pos.ChunkID), strconv.FormatUint(uint64(pos.Offset), 10)}
		}
	case "F":
		r.hs.VerifFlush()
		op.Res = "OK"
	case "H":
		r.hs.VerifHintDump()
		op.Res = "OK"
	case "R":
		r.hs.VerifWaitIdle()
		r.hs.Close()
		bh := bucketHome(r.home, r.cfg.NB, r.cfg.Bucket)
		if op.RmTrees {
			ms, _ := filepath.Glob(filepath.Join(bh, "*.idx.hash"))
			for _, m := range ms {
				os.Remove(m)
			}
		}
		if op.RmMerged {
			ms, _ := filepath.Glob(filepath.Join(bh, "*.idx.m"))
			for _, m := range ms {
				os.Remove(m)
			}
		}
		for _, cs := range op.RmHints {
			os.Remove(filepath.Join(bh, fmt.Sprintf("%03d.%03d.idx.s", cs[0], cs[1])))
		}
		if err := r.open(); err != nil {
			op.Res = "REFUSE"
		} else {
			op.Res = "OK"
		}
		op.Dir = snapshotDir(bh)
	case "CR":
		b, e, err := r.hs.GC(r.cfg.Bucket, op.A, op.B, op.Days, false, true) // pretend mode of the public entry point
		if err != nil {
			op.Res = "ERR"
		} else {
			op.Res = "RANGE"
			op.Out = []string{strconv.Itoa(b), strconv.Itoa(e)}
		}
	case "C":
		st := r.hs.VerifGC(r.cfg.Bucket, op.A, op.B, op.Merge)
		op.Res = "OK"
		op.Out = []string{strconv.FormatInt(st.NumBefore, 10), strconv.FormatInt(st.NumReleased, 10),
			strconv.FormatInt(st.SizeReleased, 10), strconv.FormatInt(st.NumNotInHtree, 10)}
		op.Dir = snapshotDir(bucketHome(r.home, r.cfg.NB, r.cfg.Bucket))
	case "X":
		op.Res = "OK"
		op.Out = []string{strconv.Itoa(r.hs.VerifHead(r.cfg.Bucket))}
		op.Dir = snapshotDir(bucketHome(r.home, r.cfg.NB, r.cfg.Bucket))
	}
}

// ---- generation ----
func validKeyInBucket(r *Rng, nb, bucket int, forced map[string]uint64) []byte {
	depthBits := uint(0)
	switch nb {
	case 16:
		depthBits = 4
	case 256:
		depthBits = 8
	}
	for {
		n := 1 + r.Intn(12)
		if r.Chance(8) {
			n = 250
		}
		k := make([]byte, n)
		for i := range k {
			switch {
			case r.Chance(6):
				k[i] = byte(0xc0 + r.Intn(0x20)) // start of a 2-byte utf-8 sequence, completed below
			default:
				k[i] = byte(0x30 + r.Intn(75))
			}
		}
		// make it valid utf-8-ish free text: replace lone lead bytes by ascii, except produce some real 2-byte runes
		for i := range k {
			if k[i] >= 0xc0 {
				if i+1 < len(k) {
					k[i] = 0xc3
					k[i+1] = byte(0xa0 + r.Intn(0x1f))
				} else {
					k[i] = 'z'
				}
			}
		}
		if k[0] == '?' || k[0] == '@' || k[0] <= ' ' {
			k[0] = 'k'
		}
		if !store.IsValidKeyString(string(k)) {
			continue
		}
		if depthBits == 0 {
			return k
		}
		h := store.VerifKeyHashDefault(k)
		if int(h>>(64-depthBits)) == bucket {
			return k
		}
	}
}

// values around the compression decision thresholds (record size 256, probe 10 KB, ratio 0.7)
func genValueCompress(r *Rng, klen int) []byte {
	mk := func(n int, class int) []byte {
		b := make([]byte, n)
		switch class {
		case 0:
			for i := range b {
				b[i] = 'a'
			}
		case 1:
			pat := r.Bytes(3 + r.Intn(5))
			for i := range b {
				b[i] = pat[i%len(pat)]
			}
		case 2:
			copy(b, []byte(strings.Repeat("lorem ipsum dolor sit amet ", n/20+1)))
		case 3:
			copy(b, r.Bytes(n))
		case 4:
			copy(b, "ID3\x03\x00\x00\x00\x00\x00\x00")
		case 5:
			copy(b, "RIFF\x24\x00\x00\x00WAVEfmt ")
		default: // compressible part + random part: ratio near 0.7
			h := n * (20 + r.Intn(25)) / 100
			for i := 0; i < h; i++ {
				b[i] = byte(i % 5)
			}
			copy(b[h:], r.Bytes(n-h))
		}
		return b
	}
	var n int
	switch r.Intn(5) {
	case 0:
		n = 256 - 24 - klen + r.Intn(3) - 1 // record size 255/256/257
	case 1:
		n = 10240 + r.Intn(3) - 1
	case 2:
		n = 10240 + 1 + r.Intn(2000)
	case 3:
		n = 300 + r.Intn(1500)
	default:
		n = 233 + r.Intn(40)
	}
	if n < 0 {
		n = 0
	}
	return mk(n, r.Intn(8))
}

func genValue(r *Rng, numeric bool) []byte {
	if numeric {
		return []byte(strconv.Itoa(r.Intn(2000) - 1000))
	}
	switch r.Intn(12) {
	case 0:
		return []byte{}
	case 1:
		return r.Bytes(1 + r.Intn(40))
	case 2:
		return r.Bytes(190 + r.Intn(80)) // around the 256-byte record boundary
	case 3:
		return r.Bytes(300 + r.Intn(500)) // incompressible, > 1 block
	case 4: // compressible
		n := 300 + r.Intn(900)
		b := make([]byte, n)
		pat := r.Bytes(1 + r.Intn(7))
		for i := range b {
			b[i] = pat[i%len(pat)]
		}
		return b
	case 5: // sniffed as audio/mpeg
		b := make([]byte, 300+r.Intn(200))
		copy(b, "ID3\x03\x00\x00\x00\x00\x00\x00")
		return b
	case 6: // sniffed as audio/wave
		b := make([]byte, 300+r.Intn(200))
		copy(b, "RIFF\x24\x00\x00\x00WAVEfmt ")
		return b
	case 7: // text, compressible
		return []byte(strings.Repeat("the quick brown fox ", 15+r.Intn(30)))
	case 8:
		return []byte(strconv.Itoa(r.Intn(100000)))
	default:
		return r.Bytes(r.Intn(120))
	}
}

func init() {
	suites["l2"] = func(seed uint64, count int, out *Out, args []string) error {
		loghub.ErrorLogger.SetLevel(loghub.FATAL)
		if os.Getenv("VERIF_TRACE") != "" {
			loghub.ErrorLogger.SetLevel(loghub.DEBUG)
		}
		r := NewRng(seed)
		mode := "plain"
		if len(args) > 0 {
			mode = args[0]
		}
		root, err := ioutil.TempDir("", "verif-l2-")
		if err != nil {
			return err
		}
		defer os.RemoveAll(root)
		now := time.Now().Unix()
		for i := 0; i < count; i++ {
			c := l2Case{I: i, Kind: mode}
			cf := &c.Cfg
			cf.NB = []int{1, 16, 256}[r.Intn(3)]
			cf.Bucket = r.Intn(cf.NB)
			depth := map[int]int{1: 0, 16: 1, 256: 2}[cf.NB]
			cf.Height = 2 + r.Intn(3)
			if depth+cf.Height > 8 {
				cf.Height = 8 - depth
			}
			cf.FileMax = []int64{1024, 1536, 2048, 4096, 16384, 4000 << 20}[r.Intn(6)]
			cf.BodyMax = []int64{512, 2048, 50 << 20}[r.Intn(3)]
			cf.SplitCap = []int64{2, 3, 4, 8, 1 << 20}[r.Intn(5)]
			cf.CheckVHash = r.Chance(35)
			cf.TreeDump = 3
			cf.NoGCDays = 1
			cf.Now = now
			if mode == "compress" {
				cf.FileMax = []int64{16384, 65536, 4000 << 20}[r.Intn(3)]
				cf.BodyMax = 50 << 20
			}
			run := &l2runner{home: filepath.Join(root, fmt.Sprintf("case%d", i)), cfg: *cf, forced: map[string]uint64{}}
			os.MkdirAll(run.home, 0755)
			// key pool
			nk := 2 + r.Intn(6)
			if mode == "gc" && r.Chance(50) { // dense profile: many live records in small files, so that GC fills and switches destinations
				cf.FileMax = []int64{1024, 1536}[r.Intn(2)]
				run.cfg.FileMax = cf.FileMax
				nk = 8 + r.Intn(7)
			}
			var keys [][]byte
			for len(keys) < nk {
				keys = append(keys, validKeyInBucket(r, cf.NB, cf.Bucket, nil))
			}
			if mode == "collide" { // groups of 2..4 keys forced onto one hash inside the bucket
				ng := 1 + r.Intn(2)
				for g := 0; g < ng; g++ {
					base := store.VerifKeyHashDefault(keys[r.Intn(len(keys))])
					gs := 2 + r.Intn(3)
					for m := 0; m < gs && m < len(keys); m++ {
						k := keys[(g*3+m)%len(keys)]
						run.forced[string(k)] = base
					}
				}
				for k, h := range run.forced {
					cf.Forced = append(cf.Forced, [2]string{hex.EncodeToString([]byte(k)), strconv.FormatUint(h, 10)})
				}
				sort.Slice(cf.Forced, func(a, b int) bool { return cf.Forced[a][0] < cf.Forced[b][0] })
				run.cfg = *cf
			}
			numeric := map[int]bool{}
			for j := range keys {
				if r.Chance(20) {
					numeric[j] = true
				}
			}
			l2mark(map[string]interface{}{"case": i, "cfg": run.cfg})
			if err := run.open(); err != nil {
				return err
			}
			nops := 20 + r.Intn(60)
			if mode == "compress" {
				nops = 12 + r.Intn(14)
			}
			if mode == "gc" || mode == "collide" {
				nops = 30 + r.Intn(70)
			}
			baseTS := uint32(now - 30*86400)
			for n := 0; n < nops; n++ {
				j := r.Intn(len(keys))
				op := l2op{K: hex.EncodeToString(keys[j])}
				p := r.Intn(100)
				restartP, gcP := 6, 0
				if mode == "restart" {
					restartP = 11
				}
				if mode == "gc" || mode == "collide" {
					gcP = 7
				}
				switch {
				case p < 34:
					op.Op = "S"
					if mode == "compress" {
						op.V = hex.EncodeToString(genValueCompress(r, len(keys[j])))
					} else {
						op.V = hex.EncodeToString(genValue(r, numeric[j] && r.Chance(70)))
					}
					if int64(len(op.V)/2) > cf.BodyMax {
						op.V = op.V[:int(cf.BodyMax)*2]
					}
					op.Flag = []uint32{0, 0, 1, 0x10, 0x204, 0xffef, 12345}[r.Intn(7)]
					if numeric[j] && r.Chance(70) {
						op.Flag = 0x204
					}
					if r.Chance(25) && mode != "collide" { // version arithmetic of colliding keys is out of scope (C13)
						op.Rev = r.Intn(12)
					}
					op.TS = baseTS + uint32(n)
				case p < 44:
					op.Op = "D"
				case p < 50:
					op.Op = "I"
					op.Delta = r.Intn(200) - 50
				case p < 70:
					op.Op = "G"
				case p < 77:
					op.Op = "M"
				case p < 80:
					op.Op = "T"
				case p < 86:
					op.Op = "F"
					op.K = ""
				case p < 89:
					op.Op = "H"
					op.K = ""
				case p < 89+restartP:
					op.Op = "R"
					op.K = ""
					bh := bucketHome(run.home, cf.NB, cf.Bucket)
					op.RmTrees = r.Chance(50)
					op.RmMerged = r.Chance(50)
					run.hs.VerifWaitIdle()
					// hint files existing *after close* are not known yet: choose by pattern on what exists now plus likely ones
					hs, _ := filepath.Glob(filepath.Join(bh, "*.idx.s"))
					cand := map[[2]int]bool{}
					for _, h := range hs {
						n := filepath.Base(h)
						ck, _ := strconv.Atoi(n[:3])
						sp, _ := strconv.Atoi(n[4:7])
						cand[[2]int{ck, sp}] = true
						cand[[2]int{ck, sp + 1}] = true
					}
					for ck := 0; ck < 12; ck++ {
						cand[[2]int{ck, 0}] = true
					}
					var cl [][2]int
					for k := range cand {
						cl = append(cl, k)
					}
					sort.Slice(cl, func(a, b int) bool {
						if cl[a][0] != cl[b][0] {
							return cl[a][0] < cl[b][0]
						}
						return cl[a][1] < cl[b][1]
					})
					mode2 := r.Intn(4)
					for _, k := range cl {
						if mode2 == 0 || (mode2 == 1 && r.Chance(50)) || (mode2 == 2 && r.Chance(15)) {
							op.RmHints = append(op.RmHints, k)
						}
					}
				case p < 89+restartP+gcP:
					// resolve a range with the real range check, then run the pass
					l2mark(map[string]interface{}{"op": "F", "hidden": true})
					run.hs.VerifFlush()
					cr := l2op{Op: "CR", A: r.Intn(10) - 2, B: r.Intn(10) - 2, Days: []int{-1, 1, 1, 2, 5, 40}[r.Intn(6)]}
					fl := l2op{Op: "F", Res: "OK"}
					c.Ops = append(c.Ops, fl)
					x0 := l2op{Op: "X"}
					run.exec(&x0)
					c.Ops = append(c.Ops, x0)
					run.exec(&cr)
					c.Ops = append(c.Ops, cr)
					xb := l2op{Op: "X"}
					run.exec(&xb)
					c.Ops = append(c.Ops, xb)
					if cr.Res != "RANGE" {
						continue
					}
					op.Op = "C"
					op.K = ""
					op.A, _ = strconv.Atoi(cr.Out[0])
					op.B, _ = strconv.Atoi(cr.Out[1])
					op.Merge = r.Chance(40)
					run.exec(&op)
					c.Ops = append(c.Ops, op)
					for _, k := range keys { // where is every key now?
						m := l2op{Op: "M", K: hex.EncodeToString(k)}
						run.exec(&m)
						c.Ops = append(c.Ops, m)
					}
					if spilledPastHead(op.Dir, run.hs.VerifHead(cf.Bucket)) {
						c.Stop = "gc-spilled-past-head"
						n = nops // ends the write phase; the closing sweep below still runs
						continue
					}
					if r.Chance(35) { // the same pass again must release nothing
						cr2 := l2op{Op: "CR", A: cr.A, B: cr.B, Days: cr.Days}
						run.exec(&cr2)
						c.Ops = append(c.Ops, cr2)
						if cr2.Res == "RANGE" {
							op2 := l2op{Op: "C", Merge: op.Merge, Again: cr2.Out[0] == cr.Out[0] && cr2.Out[1] == cr.Out[1]}
							op2.A, _ = strconv.Atoi(cr2.Out[0])
							op2.B, _ = strconv.Atoi(cr2.Out[1])
							run.exec(&op2)
							c.Ops = append(c.Ops, op2)
						}
					}
					continue
				default:
					op.Op = "X"
					op.K = ""
				}
				run.exec(&op)
				c.Ops = append(c.Ops, op)
				if op.Res == "REFUSE" {
					break
				}
			}
			// closing sweep: read everything back, then restart with everything rebuilt and read again
			if len(c.Ops) == 0 || c.Ops[len(c.Ops)-1].Res != "REFUSE" {
				for _, k := range keys {
					g := l2op{Op: "G", K: hex.EncodeToString(k)}
					run.exec(&g)
					c.Ops = append(c.Ops, g)
				}
				rs := l2op{Op: "R", RmTrees: r.Bool(), RmMerged: true}
				if r.Bool() { // every hint file gone too: the index is rebuilt from the data files alone
					for ck := 0; ck < 24; ck++ {
						for sp := 0; sp < 6; sp++ {
							rs.RmHints = append(rs.RmHints, [2]int{ck, sp})
						}
					}
				}
				run.exec(&rs)
				c.Ops = append(c.Ops, rs)
				if rs.Res == "OK" {
					for _, k := range keys {
						g := l2op{Op: "M", K: hex.EncodeToString(k)}
						run.exec(&g)
						c.Ops = append(c.Ops, g)
						gt := l2op{Op: "T", K: hex.EncodeToString(k)}
						run.exec(&gt)
						c.Ops = append(c.Ops, gt)
						g2 := l2op{Op: "G", K: hex.EncodeToString(k)}
						run.exec(&g2)
						c.Ops = append(c.Ops, g2)
					}
				}
				run.hs.VerifWaitIdle()
				run.hs.Close()
			}
			store.VerifSetKeyHash(nil)
			os.RemoveAll(run.home)
			out.Emit(c)
		}
		return nil
	}
}
