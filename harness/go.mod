module verifharness

go 1.13

require github.com/douban/gobeansdb v0.0.0

replace github.com/douban/gobeansdb => /repo
